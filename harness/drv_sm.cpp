// qxv sm — drives the real stream-management code along behaviours of spec/StreamMgmt.tla.
//
// Behaviour: {"steps":[{"a":"EnableOk"},{"a":"SendStanza"},{"a":"Ack","h":1},{"a":"Loss"},
//                       {"a":"Reconnect","sm":true},{"a":"ResumeOk","h":2}, ...]}
//
// A real QXmppClient (TestClient of fixture.h) is connected over loopback TCP to the scripted
// LoopPeer, which plays an honest server: stream header, SASL PLAIN, bind, <sm/>.  The execution
// starts where the client has sent <enable/> and waits for the answer.  Per step one trace line:
//   {"e":"SendStanza","id":3,"ok":true,
//    "o":{"out":[{"k":"s","v":3}],"nr":1,"rep":[{"id":3,"r":"Plain"}],"nz":"None",
//         "en":true,"inH":0,"ph":"Up"}}
// out  what the client handed to the socket during the step, projected: k="s" a stanza the
//      harness knows (v = its number: user stanzas and initial presences are numbered 1,2,3,...
//      in order of first sending), "n" the user nonza, "a"/"resume" with v = h, "o" anything else
//      that is not negotiation; <r/> is only counted (nr).  Taken from the client's SentMessage
//      log entries that were written to a connected socket and cross-checked byte for byte with
//      what arrived at the peer ("wire": true).
// rep  send-task continuations that ran during the step, in order (r = Plain|Acked|Failed).
// nz   report of the nonza sent by the step.
// en / inH / ph  StreamAckManager::enabled(), lastIncomingSequenceNumber(), script phase as
//      observed (what the client asked for).
#include "QXmppIq.h"
#include "QXmppMessage.h"
#include "QXmppNonza.h"
#include "QXmppPacket_p.h"
#include "QXmppPresence.h"
#include "QXmppStreamManagement_p.h"
#include "fixture.h"
#include "loopback.h"
#include "qxv.h"

#include <memory>

#include <QSet>
#include <QXmlStreamWriter>

#include <algorithm>

namespace {

const char *NS_SM = "urn:xmpp:sm:3";
const char *NS_NONZA = "urn:qxv:nonza";

class QxvNonza : public QXmppNonza
{
public:
    void parse(const QDomElement &) override { }
    void toXml(QXmlStreamWriter *w) const override
    {
        w->writeStartElement(QStringLiteral("x"));
        w->writeDefaultNamespace(QString::fromLatin1(NS_NONZA));
        w->writeEndElement();
    }
};

// accepts the harness nonza so that receiving it is not an "unexpected element"
class NonzaSink : public QXmppClientExtension
{
public:
    bool handleStanza(const QDomElement &el) override
    {
        return el.namespaceURI() == QLatin1String(NS_NONZA);
    }
};

struct Entry {
    QString text;
    bool written;  // the socket was connected when it was handed over
};

struct Exec {
    Ctx &ctx;
    LoopPeer &peer;
    qint64 &expectBytes;  // bytes the peer must have received in total (all executions)
    TestClient *c = nullptr;
    QObject *guard = nullptr;  // context of the send continuations
    QList<Entry> log;
    int logPos = 0;       // first entry not yet projected
    int scanPos = 0;      // first entry the script has not looked at
    QString ph = "Down";  // script phase as observed
    int nid = 0;          // last stanza number used
    QMap<QString, int> idnum;
    int connNo = 0;
    int recvNo = 0;
    int lastInH = 0;
    QJsonArray reps;
    QJsonArray iqDone;      // IQ tasks (QXmppClient::sendIq) that finished during the step
    QSet<int> pendIq;       // requests whose task has not finished
    int respNo = 0;         // cycles the response variants
    int getNo = 0;
    QString nzrep = "None";
    QString bindId;
    bool wireOk = true;
    QString fail;  // harness-level failure (hang detector)
    QMetaObject::Connection logConn;
    bool raw = false;

    Exec(Ctx &ctx, LoopPeer &peer, qint64 &expectBytes) : ctx(ctx), peer(peer), expectBytes(expectBytes) { }
    ~Exec()
    {
        delete c;
        delete guard;
    }

    bool sockConnected() const { return c && c->stream()->socket()->state() == QAbstractSocket::ConnectedState; }

    void create()
    {
        c = new TestClient(TestClient::NoExtensions, "me@example.org/r");
        guard = new QObject;
        c->addExtension(new NonzaSink);
        auto &cfg = c->configuration();
        cfg.setHost("127.0.0.1");
        cfg.setPort(peer.port());
        cfg.setAutoReconnectionEnabled(false);
        cfg.setStreamSecurityMode(QXmppConfiguration::TLSDisabled);
        cfg.setDisabledSaslMechanisms({});
        cfg.setUseSasl2Authentication(false);
        cfg.setUseNonSASLAuthentication(false);
        logConn = QObject::connect(c->logger(), &QXmppLogger::message, guard, [this](QXmppLogger::MessageType type, const QString &text) {
            if (type == QXmppLogger::SentMessage) {
                bool w = sockConnected();
                log.append({ text, w });
                if (w) {
                    expectBytes += text.toUtf8().size();
                }
            }
        });
    }

    // everything the client handed to its socket has arrived at the peer; posted events done
    bool settle()
    {
        bool ok = qxvSpin([&] { return peer.totalReceived >= expectBytes; });
        qxvDrain();
        if (!ok && fail.isEmpty()) {
            fail = "bytes logged as sent did not arrive at the peer";
        }
        return ok;
    }

    // server writes; returns when the client has parsed it and reacted
    bool serverWrite(const QByteArray &xml)
    {
        if (!peer.isOpen()) {
            fail = "peer socket not open";
            return false;
        }
        int rc0 = c->receivedCount;
        peer.write(xml);
        bool ok = qxvSpin([&] { return c->receivedCount > rc0; });
        if (!ok && fail.isEmpty()) {
            fail = "client did not consume: " + QString::fromUtf8(xml.left(60));
        }
        return settle() && ok;
    }

    // look at what the client has sent since the last look; answer bind; find the SM request
    void advance()
    {
        for (int round = 0; round < 4; round++) {
            bool again = false;
            for (; scanPos < log.size(); scanPos++) {
                const auto &t = log[scanPos].text;
                if (t.startsWith("<iq") && t.contains("urn:ietf:params:xml:ns:xmpp-bind")) {
                    QxvXml x(t);
                    bindId = x.el.attribute("id");
                    scanPos++;
                    serverWrite(QStringLiteral("<iq type='result' id='%1'><bind xmlns='urn:ietf:params:xml:ns:xmpp-bind'>"
                                               "<jid>me@example.org/r</jid></bind></iq>")
                                    .arg(bindId)
                                    .toUtf8());
                    again = true;
                    break;
                } else if (t.startsWith("<resume")) {
                    ph = "NegoResume";
                } else if (t.startsWith("<enable")) {
                    ph = "NegoEnable";
                }
            }
            if (!again) {
                break;
            }
        }
        if (c->isConnected()) {
            ph = "Up";
        }
    }

    static QByteArray header(int n, const QString &features)
    {
        return QStringLiteral("<?xml version='1.0'?><stream:stream xmlns='jabber:client' "
                              "xmlns:stream='http://etherx.jabber.org/streams' id='st%1' from='example.org' version='1.0'>"
                              "<stream:features>%2</stream:features>")
            .arg(n)
            .arg(features)
            .toUtf8();
    }

    bool logged(const QString &prefix, int from) const
    {
        for (int i = from; i < log.size(); i++) {
            if (log[i].text.contains(prefix)) {
                return true;
            }
        }
        return false;
    }

    // connectToServer + honest negotiation up to the first stream-management decision
    bool connectAndNegotiate(bool offerSm)
    {
        ++connNo;
        int conn0 = peer.connections;
        int from = log.size();
        QXmppPresence pres;
        pres.setId(QStringLiteral("p%1").arg(connNo));
        ph = "Nego";
        c->connectToServer(c->configuration(), pres);
        if (!peer.waitConnection(conn0 + 1) || !qxvSpin([&] { return logged("<stream:stream", from); }) || !settle()) {
            fail = "no connection / stream header";
            return false;
        }
        // no Nagle / delayed-ACK stalls between the many small writes (affects timing only)
        peer.sock->setSocketOption(QAbstractSocket::LowDelayOption, 1);
        c->stream()->socket()->setSocketOption(QAbstractSocket::LowDelayOption, 1);
        from = log.size();
        if (!serverWrite(header(2 * connNo - 1, "<mechanisms xmlns='urn:ietf:params:xml:ns:xmpp-sasl'><mechanism>PLAIN</mechanism></mechanisms>")) ||
            !logged("<auth", from)) {
            fail = "no <auth/>: " + fail;
            return false;
        }
        from = log.size();
        if (!serverWrite("<success xmlns='urn:ietf:params:xml:ns:xmpp-sasl'/>") || !logged("<stream:stream", from)) {
            fail = "no stream restart: " + fail;
            return false;
        }
        scanPos = log.size();
        QString f = "<bind xmlns='urn:ietf:params:xml:ns:xmpp-bind'/>";
        if (offerSm) {
            f += "<sm xmlns='urn:xmpp:sm:3'/>";
        }
        if (!serverWrite(header(2 * connNo, f))) {
            return false;
        }
        advance();
        return true;
    }

    // projection of the entries logged since the last step
    QJsonObject takeOut()
    {
        QJsonArray out, rawOut;
        int nr = 0;
        QByteArray bytes;
        for (; logPos < log.size(); logPos++) {
            const auto &e = log[logPos];
            if (!e.written) {
                continue;
            }
            bytes += e.text.toUtf8();
            const auto &t = e.text;
            if (raw) {
                rawOut.append(t);
            }
            if (t.startsWith("<?xml") || t.startsWith("<stream:stream") || t.startsWith("</stream:stream")) {
                continue;
            }
            QxvXml x(t);
            auto tag = x.el.tagName();
            auto ns = x.el.namespaceURI();
            if (ns == QLatin1String(NS_SM)) {
                if (tag == "r") {
                    nr++;
                } else if (tag == "a") {
                    out.append(QJsonObject { { "k", "a" }, { "v", x.el.attribute("h").toInt() } });
                } else if (tag == "resume") {
                    out.append(QJsonObject { { "k", "resume" }, { "v", x.el.attribute("h").toInt() } });
                }
                continue;  // <enable/> is negotiation
            }
            if (ns == QLatin1String(NS_NONZA)) {
                out.append(QJsonObject { { "k", "n" }, { "v", 0 } });
                continue;
            }
            if (tag == "auth" || (tag == "iq" && t.contains("urn:ietf:params:xml:ns:xmpp-bind"))) {
                continue;
            }
            if (tag == "message" || tag == "presence" || tag == "iq") {
                auto id = x.el.attribute("id");
                if (!idnum.contains(id) && ((tag == "presence" && id.startsWith('p')) || (tag == "iq" && id.startsWith('g')))) {
                    // a stanza the library sends itself, first seen now: the initial presence of a new
                    // session, or the error reply to an incoming IQ get of the script
                    idnum[id] = ++nid;
                }
                if (idnum.contains(id)) {
                    out.append(QJsonObject { { "k", "s" }, { "v", idnum[id] } });
                    continue;
                }
            }
            out.append(QJsonObject { { "k", "o" }, { "v", 0 } });
        }
        // cross-check with the bytes that arrived at the peer
        auto got = peer.takeReceived();
        if (got != bytes) {
            wireOk = false;
        }
        QJsonObject o { { "out", out }, { "nr", nr } };
        if (raw) {
            o["raw"] = rawOut;  // --raw=1: the exact elements, for replay files and demonstrations
        }
        return o;
    }

    QJsonObject observe()
    {
        auto o = takeOut();
        o["rep"] = reps;
        o["iq"] = iqDone;
        iqDone = {};
        QList<int> pl = pendIq.values();
        std::sort(pl.begin(), pl.end());
        QJsonArray pa;
        for (int i : pl) {
            pa.append(i);
        }
        o["pend"] = pa;
        o["nz"] = nzrep;
        reps = {};
        nzrep = "None";
        if (c) {
            o["en"] = c->stream()->streamAckManager().enabled();
            lastInH = int(c->stream()->streamAckManager().lastIncomingSequenceNumber());
        } else {
            o["en"] = false;
        }
        o["inH"] = lastInH;
        o["ph"] = ph;
        o["wire"] = wireOk;
        return o;
    }

    static QString kindOf(const QXmpp::SendResult &r)
    {
        if (auto *s = std::get_if<QXmpp::SendSuccess>(&r)) {
            return s->acknowledged ? "Acked" : "Plain";
        }
        return "Failed";
    }

    bool possible(const QString &a) const
    {
        if (!c) {
            return false;
        }
        if (a == "SendStanza" || a == "SendIqRequest" || a == "SendNonza" || a == "Destroy") {
            return true;
        }
        if (a == "Ack" || a == "Req" || a == "RecvStanza" || a == "RecvNonza" || a == "RecvIqResponse" || a == "RecvIqGet") {
            return ph == "Up" && peer.isOpen() && sockConnected();
        }
        if (a == "Loss") {
            return (ph == "Up" || ph == "NegoResume" || ph == "NegoEnable") && peer.isOpen() && sockConnected();
        }
        if (a == "Reconnect") {
            return ph == "Down" && !sockConnected();
        }
        if (a == "ResumeOk" || a == "ResumeFail") {
            return ph == "NegoResume" && peer.isOpen() && sockConnected();
        }
        if (a == "EnableOk" || a == "EnableFail") {
            return ph == "NegoEnable" && peer.isOpen() && sockConnected();
        }
        return false;
    }

    // returns false when the execution must end (operation impossible / harness failure)
    bool step(const QJsonObject &s)
    {
        auto a = s["a"].toString();
        if (!possible(a)) {
            return false;
        }
        QJsonObject ev { { "e", a } };
        bool ok = true;
        if (a == "SendStanza") {
            int id = ++nid;
            auto sid = QStringLiteral("s%1").arg(id);
            idnum[sid] = id;
            ev["id"] = id;
            QXmppMessage m(QString(), "peer@example.org", QStringLiteral("body %1").arg(id));
            m.setId(sid);
            c->send(std::move(m)).then(guard, [this, id](QXmpp::SendResult &&r) {
                reps.append(QJsonObject { { "id", id }, { "r", kindOf(r) } });
            });
            ok = settle();
        } else if (a == "SendIqRequest") {
            // the tracked API: QXmppClient::sendIq registers the id with OutgoingIqManager and sends the
            // request through StreamAckManager like any other stanza; only its IQ task is visible
            int id = ++nid;
            auto sid = QStringLiteral("q%1").arg(id);
            idnum[sid] = id;
            ev["id"] = id;
            QXmppIq iq(QXmppIq::Get);
            iq.setId(sid);
            iq.setTo(QStringLiteral("example.org"));
            pendIq.insert(id);
            c->sendIq(std::move(iq)).then(guard, [this, id](QXmppClient::IqResult &&r) {
                pendIq.remove(id);
                QString kind = "Result";
                if (auto *e = std::get_if<QXmppError>(&r)) {
                    kind = e->holdsType<QXmppStanza::Error>() ? "Error" : "Failed";
                }
                iqDone.append(QJsonObject { { "id", id }, { "r", kind } });
            });
            ok = settle();
        } else if (a == "RecvIqResponse") {
            // the scripted server answers request number i: id taken from the request as it went over the
            // wire; result / error, from absent / from the addressee (all four are matched by the tracker)
            int i = s["i"].toInt();
            ev["i"] = i;
            QString rid = idnum.key(i);
            if (rid.isEmpty() || !rid.startsWith('q')) {
                return false;
            }
            int variant = respNo++ % 4;
            bool isErr = variant >= 2, withFrom = variant % 2 == 1;
            ev["kind"] = QString(isErr ? "error" : "result") + (withFrom ? "+from" : "");
            QString xml = QStringLiteral("<iq type='%1' id='%2'%3>%4</iq>")
                              .arg(isErr ? "error" : "result", rid, withFrom ? " from='example.org'" : "",
                                   isErr ? "<error type='cancel'><item-not-found xmlns='urn:ietf:params:xml:ns:xmpp-stanzas'/></error>" : "");
            ok = serverWrite(xml.toUtf8());
        } else if (a == "RecvIqGet") {
            // nobody handles it: the client answers with an error IQ (a stanza it sends itself)
            ++getNo;
            ev["kind"] = getNo % 2 ? "get" : "set";
            ok = serverWrite(QStringLiteral("<iq type='%1' id='g%2' from='a@example.org/x' to='me@example.org/r'>"
                                            "<query xmlns='urn:qxv:unknown'/></iq>")
                                 .arg(getNo % 2 ? "get" : "set")
                                 .arg(connNo * 1000 + getNo)
                                 .toUtf8());
        } else if (a == "SendNonza") {
            nzrep = "Pending";
            c->stream()->streamAckManager().send(QXmppPacket(QxvNonza())).then(guard, [this](QXmpp::SendResult &&r) {
                nzrep = kindOf(r);
            });
            ok = settle();
        } else if (a == "Ack") {
            int h = s["h"].toInt();
            ev["h"] = h;
            ok = serverWrite(QStringLiteral("<a xmlns='urn:xmpp:sm:3' h='%1'/>").arg(h).toUtf8());
        } else if (a == "Req") {
            ok = serverWrite("<r xmlns='urn:xmpp:sm:3'/>");
        } else if (a == "RecvStanza") {
            static const char *kinds[] = { "message", "presence", "iq" };
            QString kind = kinds[recvNo % 3];
            ++recvNo;
            ev["kind"] = kind;
            QByteArray xml;
            if (kind == "message") {
                xml = QStringLiteral("<message from='a@example.org/x' to='me@example.org/r' type='chat' id='in%1'><body>hi</body></message>").arg(recvNo).toUtf8();
            } else if (kind == "presence") {
                xml = "<presence from='a@example.org/x' to='me@example.org/r'/>";
            } else {
                xml = QStringLiteral("<iq type='result' id='in%1' from='example.org'/>").arg(recvNo).toUtf8();
            }
            ok = serverWrite(xml);
        } else if (a == "RecvNonza") {
            ok = serverWrite("<x xmlns='urn:qxv:nonza'/>");
        } else if (a == "Loss") {
            peer.cut();
            ok = qxvSpin([&] { return c->stream()->socket()->state() == QAbstractSocket::UnconnectedState && !c->isConnected(); });
            qxvDrain();
            ph = "Down";
            if (!ok) {
                fail = "client did not notice the cut";
            }
        } else if (a == "Reconnect") {
            bool sm = s["sm"].toBool();
            ev["sm"] = sm;
            ok = connectAndNegotiate(sm);
        } else if (a == "ResumeOk") {
            int h = s["h"].toInt();
            ev["h"] = h;
            ok = serverWrite(QStringLiteral("<resumed xmlns='urn:xmpp:sm:3' h='%1' previd='smid'/>").arg(h).toUtf8());
            advance();
        } else if (a == "ResumeFail") {
            scanPos = log.size();
            ok = serverWrite("<failed xmlns='urn:xmpp:sm:3'><item-not-found xmlns='urn:ietf:params:xml:ns:xmpp-stanzas'/></failed>");
            ph = "Nego";
            advance();
        } else if (a == "EnableOk") {
            ok = serverWrite("<enabled xmlns='urn:xmpp:sm:3' resume='true' id='smid'/>");
            ph = "Nego";
            advance();
        } else if (a == "EnableFail") {
            ok = serverWrite("<failed xmlns='urn:xmpp:sm:3'><feature-not-implemented xmlns='urn:ietf:params:xml:ns:xmpp-stanzas'/></failed>");
            ph = "Nego";
            advance();
        } else if (a == "Destroy") {
            destroy(ev);
            return false;
        }
        ev["ok"] = ok && fail.isEmpty();
        ev["o"] = observe();
        ctx.emit_(ev);
        return ok && fail.isEmpty();
    }

    void destroy(QJsonObject ev = { { "e", "Destroy" } })
    {
        if (!c) {
            return;
        }
        lastInH = int(c->stream()->streamAckManager().lastIncomingSequenceNumber());
        // the socket dies with the client; what it writes while dying is not an observation
        QObject::disconnect(logConn);
        delete c;
        c = nullptr;
        qxvDrain();
        ph = "Dead";
        // bytes written while dying (stream close) are not part of any observation
        qxvSpin([&] { return !peer.isOpen() || peer.peerClosed; }, 500);
        peer.cut();
        expectBytes = peer.totalReceived;
        logPos = log.size();
        peer.takeReceived();
        ev["ok"] = true;
        ev["o"] = observe();
        if (!quiet) {
            ctx.emit_(ev);
        }
    }
    bool quiet = false;  // set-up retries leave no trace line
};

}  // namespace

QXV_DRIVER(sm)
{
    auto behs = ctx.behaviours();
    const bool probe = ctx.optInt("probe", 0) != 0;
    LoopPeer peer;
    qint64 expectBytes = 0;
    int n = 0;
    int failures = 0;
    for (const auto &bv : behs) {
        auto b = bv.toObject();
        auto steps = b["steps"].toArray();
        auto id = QString("s%1").arg(++n);
        TestClient::resetIdCounter();
        // The initial negotiation is harness set-up, not an observation: on a heavily loaded machine
        // a connection attempt can exceed the hang detector, so it is retried with a fresh client
        // before the run is declared broken.
        std::unique_ptr<Exec> xp;
        bool ok = false;
        for (int attempt = 0; attempt < 4 && !ok; ++attempt) {
            if (xp) {
                xp->quiet = true;
                xp->destroy();
                qxvDrain();
            }
            xp.reset(new Exec(ctx, peer, expectBytes));
            xp->raw = ctx.optInt("raw", 0) != 0;
            xp->create();
            expectBytes = peer.totalReceived;
            ok = xp->connectAndNegotiate(true) && xp->ph == "NegoEnable";
            if (!ok) {
                fprintf(stderr, "sm: initial negotiation attempt %d failed (%s, phase %s)\n", attempt + 1, qPrintable(xp->fail), qPrintable(xp->ph));
            }
        }
        Exec &x = *xp;
        if (!ok) {
            fprintf(stderr, "sm: initial negotiation failed (%s, phase %s)\n", qPrintable(x.fail), qPrintable(x.ph));
            return 2;
        }
        ctx.reset(id, { { "o", x.observe() } });
        bool complete = true, sawDestroy = false;
        for (const auto &sv : steps) {
            sawDestroy = sv.toObject()["a"].toString() == "Destroy";
            if (!x.step(sv.toObject())) {
                complete = false;
                break;
            }
        }
        // End-of-behaviour probe (--probe=1): model actions that make the client's hidden state visible
        // before it is destroyed -- <r/> shows the handled count, a cut + <resumed h='0'/> shows the whole
        // unacknowledged queue.  They are logged and validated like any other step.
        if (probe && complete && !sawDestroy && x.fail.isEmpty()) {
            bool go = true;
            if (go && x.ph == "Up") {
                go = x.step({ { "a", "Req" } });
            }
            if (go && (x.ph == "Up" || x.ph == "NegoResume" || x.ph == "NegoEnable")) {
                go = x.step({ { "a", "Loss" } });
            }
            if (go && x.ph == "Down") {
                go = x.step({ { "a", "Reconnect" }, { "sm", true } });
            }
            if (go && x.ph == "NegoResume") {
                go = x.step({ { "a", "ResumeOk" }, { "h", 0 } });
            }
        }
        if (!x.fail.isEmpty()) {
            ++failures;
            ctx.emit_({ { "e", "HarnessFailure" }, { "what", x.fail } });
            fprintf(stderr, "sm: %s: %s\n", qPrintable(id), qPrintable(x.fail));
        }
        x.destroy();
    }
    if (failures) {
        fprintf(stderr, "sm: %d executions hit the hang detector\n", failures);
    }
    return 0;
}
