// qxv selftest — smoke test of the in-memory fixture (not a property check)
#include "fixture.h"
#include "qxv.h"

QXV_DRIVER(selftest)
{
    TestClient c(TestClient::DefaultExtensions);
    c.fakeSession();
    c.inject("<iq type='get' id='x1' from='a@b/c'><query xmlns='jabber:iq:version'/></iq>"
             "<iq type='get' id='x2' from='a@b/c'><foo xmlns='urn:unknown'/></iq>");
    ctx.reset("s1");
    for (const auto &s : c.takeSent()) {
        QxvXml x(s);
        ctx.emit_({ { "e", "Sent" }, { "tag", x.el.tagName() }, { "type", x.el.attribute("type") }, { "id", x.el.attribute("id") }, { "raw", s } });
    }
    return 0;
}
