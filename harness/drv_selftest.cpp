// qxv selftest — smoke test of the in-memory fixture (not a property check)
#include "fixture.h"
#include "qxv.h"

QXV_DRIVER(selftest)
{
    TestClient c(TestClient::DefaultExtensions);
    c.fakeSession();
    c.inject("<iq type='get' id='x1' from='a@b/c'><query xmlns='jabber:iq:version'/></iq>"
             "<iq type='get' id='x2' from='a@b/c'><foo xmlns='urn:unknown'/></iq>");
    ctx.reset("s1");
    for (const auto &s : c.takeSent()) {
        QxvXml x(s);
        ctx.emit_({ { "e", "Sent" }, { "tag", x.el.tagName() }, { "type", x.el.attribute("type") }, { "id", x.el.attribute("id") }, { "raw", s } });
    }
    return 0;
}

#include "loopback.h"

// loopback smoke test: real client connects to the scripted peer, empty features -> session
QXV_DRIVER(selftest_loop)
{
    LoopPeer peer;
    TestClient c(TestClient::NoExtensions, "me@example.org/r");
    QStringList sig;
    QObject::connect(&c, &QXmppClient::connected, [&] { sig << "connected"; });
    QObject::connect(&c, &QXmppClient::disconnected, [&] { sig << "disconnected"; });
    c.configuration().setHost("127.0.0.1");
    c.configuration().setPort(peer.port());
    c.configuration().setAutoReconnectionEnabled(false);
    c.connectToServer(c.configuration());
    bool ok = peer.waitConnection(1);
    ok = ok && qxvSpin([&] { return peer.received.contains("<stream:stream"); });
    ctx.reset("loop1");
    ctx.emit_({ { "e", "Open" }, { "ok", ok }, { "recv", QString::fromUtf8(peer.takeReceived()) } });
    int rc0 = c.receivedCount;
    peer.write("<?xml version='1.0'?><stream:stream xmlns='jabber:client' xmlns:stream='http://etherx.jabber.org/streams' id='s1' from='example.org' version='1.0'><stream:features/>");
    ok = qxvSpin([&] { return c.receivedCount > rc0; });
    qxvDrain();
    ctx.emit_({ { "e", "Features" }, { "ok", ok }, { "sig", jarr(sig) }, { "connected", c.isConnected() }, { "sent", jarr(c.takeSent()) } });
    peer.cut();
    ok = qxvSpin([&] { return !c.isConnected() && sig.contains("disconnected"); });
    ctx.emit_({ { "e", "Cut" }, { "ok", ok }, { "sig", jarr(sig) }, { "state", int(c.state()) } });
    // TLS
    sig.clear();
    c.configuration().setStreamSecurityMode(QXmppConfiguration::TLSRequired);
    c.configuration().setIgnoreSslErrors(true);
    c.connectToServer(c.configuration());
    ok = peer.waitConnection(2) && qxvSpin([&] { return peer.received.contains("<stream:stream"); });
    peer.takeReceived();
    rc0 = c.receivedCount;
    peer.write("<?xml version='1.0'?><stream:stream xmlns='jabber:client' xmlns:stream='http://etherx.jabber.org/streams' id='s2' from='example.org' version='1.0'><stream:features><starttls xmlns='urn:ietf:params:xml:ns:xmpp-tls'/></stream:features>");
    ok = ok && qxvSpin([&] { return peer.received.contains("<starttls"); });
    peer.takeReceived();
    peer.write("<proceed xmlns='urn:ietf:params:xml:ns:xmpp-tls'/>");
    bool tls = peer.startTls();
    ok = qxvSpin([&] { return peer.received.contains("<stream:stream"); });
    ctx.emit_({ { "e", "Tls" }, { "ok", ok }, { "tls", tls }, { "sent", jarr(c.sent) }, { "recvAfterTls", QString::fromUtf8(peer.takeReceived()) } });
    return 0;
}
