// qxv caps — drives the real QXmppDiscoveryIq / QXmppDiscoveryManager / QXmppClient along behaviours of
// spec/Caps.tla (property C20).
//
// Behaviour: {"alpha":["","a","b",..], "mk":"list-multi", "steps":[{"a":"AddFeature","f":2,"t":"change","c":[2,1000]}, ...]}
//   atoms of the specification are substituted by alpha[atom] (lib/props/C20.py chooses the alphabet; its order is
//   the octet order of the strings; alpha[0] is the empty string, which may stand in every role).
//   A field is single-valued (text-single) or multi-valued ("m":true; the behaviour's "mk" says which of
//   list-multi / jid-multi / text-multi) with 0, 1, 2+ values, empty and repeated members included.
//
// After every edit the info set is turned, IN THE GIVEN ORDER, into a fresh QXmppDiscoveryIq (setIdentities,
// setFeatures, setForm) and logged:
//     ver   base64(verificationString())
//     in    the strings given;   wire  what toXml() of that IQ puts on the wire, re-read with plain QDom
// (lib/props/C20.py hashes `wire` and the specification's canonical string with an independent implementation.)
//
// Announce / SessionOpen steps use a real client (fixture TestClient, default extensions, one TCP connection to a
// mute loopback listener so that QXmppClient::setClientPresence takes its connected branch): the info set is
// what a harness extension returns from discoveryFeatures()/discoveryIdentities() plus the client info form.
//     Announce     QXmppClient::setClientPresence(available)
//     SessionOpen  the stream's connected(SessionBegin) signal, as after a (re)connect without resumption
// then the <c ver/> of the presence the client sent is read, a disco#info get for node#ver (or without node) is
// injected through the receive path and the reply is re-read with plain QDom.
#include "fixture.h"
#include "qxv.h"

#include "QXmppDataForm.h"
#include "QXmppDiscoveryIq.h"
#include "QXmppDiscoveryManager.h"
#include "QXmppPresence.h"

#include <QElapsedTimer>
#include <QSslSocket>
#include <QTcpServer>
#include <QTcpSocket>
#include <QXmlStreamWriter>

#include <memory>

namespace {

struct FieldS {
    QString var;
    QStringList vals;
    QString type;  // only for probes: explicit field type
    bool multi = false;
};
struct Info {
    QList<QStringList> ids;  // c, t, l, n
    QStringList feats;
    bool formOn = false;
    QList<FieldS> fields;
};

QList<QXmppDiscoveryIq::Identity> identities(const Info &i)
{
    QList<QXmppDiscoveryIq::Identity> r;
    for (const auto &x : i.ids) {
        QXmppDiscoveryIq::Identity id;
        id.setCategory(x[0]);
        id.setType(x[1]);
        id.setLanguage(x[2]);
        id.setName(x[3]);
        r << id;
    }
    return r;
}

QXmppDataForm::Field::Type typeFromString(const QString &t)
{
    using F = QXmppDataForm::Field;
    if (t == "boolean") return F::BooleanField;
    if (t == "hidden") return F::HiddenField;
    if (t == "list-multi") return F::ListMultiField;
    if (t == "text-multi") return F::TextMultiField;
    if (t == "jid-multi") return F::JidMultiField;
    if (t == "list-single") return F::ListSingleField;
    if (t == "fixed") return F::FixedField;
    return F::TextSingleField;
}

QXmppDataForm dataForm(const Info &i, const QString &mk)
{
    using F = QXmppDataForm::Field;
    if (!i.formOn) {
        return QXmppDataForm();
    }
    QList<F> fs;
    for (const auto &f : i.fields) {
        if (!f.type.isEmpty()) {  // probe: explicit type
            auto t = typeFromString(f.type);
            QVariant v;
            if (t == F::BooleanField) {
                v = !f.vals.isEmpty() && (f.vals[0] == "1" || f.vals[0] == "true");
            } else if (t == F::ListMultiField || t == F::JidMultiField) {
                v = f.vals;
            } else if (t == F::TextMultiField) {
                v = f.vals.join('\n');
            } else {
                v = f.vals.isEmpty() ? QString() : f.vals[0];
            }
            fs << F(t, f.var, v);
        } else if (f.var == "FORM_TYPE") {
            fs << F(F::HiddenField, f.var, f.vals.value(0));
        } else if (f.multi) {
            fs << F(typeFromString(mk), f.var, f.vals);  // a QStringList, whatever the multi kind
        } else {
            fs << F(F::TextSingleField, f.var, f.vals.value(0));
        }
    }
    return QXmppDataForm(QXmppDataForm::Result, fs);
}

QJsonArray jfields(const QList<FieldS> &fs)
{
    QJsonArray a;
    for (const auto &f : fs) {
        QJsonObject o { { "var", f.var }, { "vals", jarr(f.vals) }, { "multi", f.multi } };
        if (!f.type.isEmpty()) {
            o["type"] = f.type;
        }
        a.append(o);
    }
    return a;
}

QJsonObject jinfo(const Info &i)
{
    QJsonArray ids;
    for (const auto &x : i.ids) {
        ids.append(jarr(x));
    }
    QJsonArray forms;
    if (i.formOn) {
        forms.append(jfields(i.fields));
    }
    return QJsonObject { { "ids", ids }, { "feats", jarr(i.feats) }, { "forms", forms } };
}

// what a disco#info <query/> element carries, read with nothing but QDom
QJsonObject wireInfo(const QDomElement &query)
{
    Info r;
    QJsonArray forms;
    for (auto c = query.firstChildElement(); !c.isNull(); c = c.nextSiblingElement()) {
        if (c.tagName() == "identity") {
            QString lang = c.attributeNS(QStringLiteral("http://www.w3.org/XML/1998/namespace"), QStringLiteral("lang"));
            if (lang.isEmpty()) {
                lang = c.attribute(QStringLiteral("xml:lang"));
            }
            r.ids << QStringList { c.attribute("category"), c.attribute("type"), lang, c.attribute("name") };
        } else if (c.tagName() == "feature") {
            r.feats << c.attribute("var");
        } else if (c.tagName() == "x" && c.namespaceURI() == "jabber:x:data") {
            QList<FieldS> fs;
            for (auto f = c.firstChildElement("field"); !f.isNull(); f = f.nextSiblingElement("field")) {
                FieldS s;
                s.var = f.attribute("var");
                s.type = f.attribute("type");
                for (auto v = f.firstChildElement("value"); !v.isNull(); v = v.nextSiblingElement("value")) {
                    s.vals << v.text();
                }
                fs << s;
            }
            forms.append(jfields(fs));
        }
    }
    auto o = jinfo(r);
    o["forms"] = forms;
    o["node"] = query.attribute("node");
    return o;
}

QDomElement firstChildNs(const QDomElement &el, const QString &tag, const QString &ns)
{
    for (auto c = el.firstChildElement(tag); !c.isNull(); c = c.nextSiblingElement(tag)) {
        if (c.namespaceURI() == ns) {
            return c;
        }
    }
    return {};
}

QJsonObject observeDirect(const Info &info, const QString &mk)
{
    QXmppDiscoveryIq iq;
    iq.setType(QXmppIq::Result);
    iq.setQueryType(QXmppDiscoveryIq::InfoQuery);
    iq.setIdentities(identities(info));
    iq.setFeatures(info.feats);
    if (info.formOn) {
        iq.setForm(dataForm(info, mk));
    }
    QByteArray xml;
    QXmlStreamWriter w(&xml);
    iq.toXml(&w);
    QxvXml x(QString::fromUtf8(xml));
    auto query = firstChildNs(x.el, "query", "http://jabber.org/protocol/disco#info");
    return QJsonObject {
        { "ver", QString::fromLatin1(iq.verificationString().toBase64()) },
        { "in", jinfo(info) },
        { "wire", wireInfo(query) },
    };
}

class CapsExt : public QXmppClientExtension
{
public:
    Info info;
    QStringList discoveryFeatures() const override { return info.feats; }
    QList<QXmppDiscoveryIq::Identity> discoveryIdentities() const override { return identities(info); }
    bool handleStanza(const QDomElement &) override { return false; }
};

struct ClientRig {
    QTcpServer server;
    std::unique_ptr<TestClient> client;
    CapsExt *ext = nullptr;
    QXmppDiscoveryManager *disco = nullptr;
    QTcpSocket *peer = nullptr;
    int qn = 0;

    bool spinUntil(const std::function<bool()> &cond, int ms = 5000)
    {
        QElapsedTimer t;
        t.start();
        while (!cond()) {
            QCoreApplication::processEvents(QEventLoop::AllEvents, 20);
            if (t.elapsed() > ms) {
                return false;  // hang detector only
            }
        }
        return true;
    }

    void start()
    {
        if (!server.listen(QHostAddress::LocalHost, 0)) {
            fprintf(stderr, "caps: cannot listen on loopback\n");
            exit(2);
        }
        client = std::make_unique<TestClient>(TestClient::DefaultExtensions);
        ext = new CapsExt;
        client->addExtension(ext);
        disco = client->findExtension<QXmppDiscoveryManager>();
        if (!disco) {
            fprintf(stderr, "caps: no QXmppDiscoveryManager among the default extensions\n");
            exit(2);
        }
        auto &cfg = client->configuration();
        cfg.setHost(QStringLiteral("127.0.0.1"));
        cfg.setPort(server.serverPort());
        cfg.setStreamSecurityMode(QXmppConfiguration::TLSDisabled);
        cfg.setAutoReconnectionEnabled(false);
        cfg.setKeepAliveInterval(0);  // no ping timers: nothing in a trace depends on time
        client->connectToServer(cfg);
        if (!spinUntil([&] { return server.hasPendingConnections() && client->stream()->socket()->state() == QAbstractSocket::ConnectedState; })) {
            fprintf(stderr, "caps: loopback connection not established\n");
            exit(2);
        }
        peer = server.nextPendingConnection();
        QObject::connect(peer, &QTcpSocket::readyRead, peer, [p = peer] { p->readAll(); });  // mute listener
        client->fakeSession(false);
        if (!client->isConnected()) {
            fprintf(stderr, "caps: client does not consider itself connected\n");
            exit(2);
        }
        client->takeSent();
    }

    void apply(const Info &info, const QString &mk)
    {
        ext->info = info;
        disco->setClientInfoForm(dataForm(info, mk));
    }

    // the <c/> of the last presence among the packets the client just sent
    QJsonObject capsOfSentPresence()
    {
        QJsonObject r { { "presence", false }, { "adv", "" }, { "node", "" }, { "hash", "" } };
        const auto sent = client->takeSent();
        for (const auto &s : sent) {
            if (!s.startsWith("<presence")) {
                continue;
            }
            QxvXml x(s);
            r["presence"] = true;
            auto c = firstChildNs(x.el, "c", "http://jabber.org/protocol/caps");
            r["adv"] = c.attribute("ver");
            r["node"] = c.attribute("node");
            r["hash"] = c.attribute("hash");
        }
        return r;
    }

    QJsonObject query(const QString &node)
    {
        auto id = QStringLiteral("qxvq%1").arg(++qn);
        QString nodeAttr = node.isNull() ? QString() : QStringLiteral(" node='%1'").arg(node.toHtmlEscaped());
        client->inject(QStringLiteral("<iq type='get' id='%1' from='peer@example.org/r' to='me@example.org/dev1'>"
                                      "<query xmlns='http://jabber.org/protocol/disco#info'%2/></iq>")
                           .arg(id, nodeAttr));
        QJsonObject r { { "rtype", "none" } };
        for (const auto &s : client->takeSent()) {
            if (!s.startsWith("<iq")) {
                continue;
            }
            QxvXml x(s);
            if (x.el.attribute("id") != id) {
                continue;
            }
            r["rtype"] = x.el.attribute("type");
            r["reply"] = wireInfo(firstChildNs(x.el, "query", "http://jabber.org/protocol/disco#info"));
        }
        return r;
    }

    QJsonObject emitStep(const QString &how, const QString &q)
    {
        client->takeSent();
        if (how == "Announce") {
            client->setClientPresence(QXmppPresence(QXmppPresence::Available));
            QCoreApplication::processEvents();
        } else {
            client->emitConnected(false, false);
        }
        auto o = capsOfSentPresence();
        o["cap"] = QString::fromLatin1(disco->capabilities().verificationString().toBase64());
        o["connected"] = client->isConnected();
        const auto adv = o["adv"].toString();
        QString node = q == "ver" ? o["node"].toString() + "#" + adv : QString();
        const auto rep = query(node);
        for (auto it = rep.begin(); it != rep.end(); ++it) {
            o[it.key()] = it.value();
        }
        return o;
    }
};

Info infoFromJson(const QJsonObject &o)
{
    Info r;
    for (const auto &x : o["ids"].toArray()) {
        QStringList l;
        for (const auto &y : x.toArray()) {
            l << y.toString();
        }
        while (l.size() < 4) {
            l << QString();
        }
        r.ids << l;
    }
    for (const auto &f : o["feats"].toArray()) {
        r.feats << f.toString();
    }
    if (o.contains("fields")) {
        r.formOn = true;
        for (const auto &fv : o["fields"].toArray()) {
            auto fo = fv.toObject();
            FieldS f;
            f.var = fo["var"].toString();
            f.type = fo["type"].toString();
            for (const auto &v : fo["vals"].toArray()) {
                f.vals << v.toString();
            }
            r.fields << f;
        }
    }
    return r;
}

}  // namespace

QXV_DRIVER(caps)
{
    auto behs = ctx.behaviours();
    ClientRig rig;
    bool rigUp = false;
    int n = 0;
    for (const auto &bv : behs) {
        const auto b = bv.toObject();
        const auto caseId = QString("c%1").arg(++n);
        if (b.contains("probe")) {
            // a hand-written info set outside the model (triage corpus): observed, never judged by the monitor
            auto info = infoFromJson(b["probe"].toObject());
            ctx.reset(caseId, { { "probe", b["name"].toString() }, { "o", observeDirect(info, QStringLiteral("list-multi")) } });
            continue;
        }
        QStringList alpha;
        for (const auto &a : b["alpha"].toArray()) {
            alpha << a.toString();
        }
        const QString mk = b["mk"].toString(QStringLiteral("list-multi"));
        const auto steps = b["steps"].toArray();
        const auto A = [&](const QJsonValue &v) {
            int a = v.toInt();
            if (a < 0 || a >= alpha.size()) {
                fprintf(stderr, "caps: atom %d outside the alphabet\n", a);
                exit(2);
            }
            return alpha[a];
        };
        bool usesClient = false;
        for (const auto &sv : steps) {
            usesClient = usesClient || sv.toObject()["t"].toString() == "emit";
        }
        Info info;
        if (usesClient) {
            if (!rigUp) {
                rig.start();
                rigUp = true;
            }
            // execution boundary: empty harness extension, no info form, and the presence the client
            // keeps for (re)connects announced in that state
            rig.apply(info, mk);
            rig.client->setClientPresence(QXmppPresence(QXmppPresence::Available));
            QCoreApplication::processEvents();
            rig.client->takeSent();
        }
        ctx.reset(caseId, { { "o", observeDirect(info, mk) }, { "mk", mk }, { "client", usesClient } });
        for (const auto &sv : steps) {
            const auto s = sv.toObject();
            const auto a = s["a"].toString();
            QJsonObject ev { { "e", a }, { "t", s["t"] }, { "c", s["c"] } };
            for (const auto &k : { "i", "j", "f", "g", "v", "var", "x", "q", "m" }) {
                if (s.contains(k)) {
                    ev[k] = s[k];
                }
            }
            const int i = s["i"].toInt() - 1, j = s["j"].toInt() - 1;
            const auto idOf = [&](const QJsonValue &x) {
                QStringList l;
                for (const auto &y : x.toArray()) {
                    l << A(y);
                }
                return l;
            };
            bool ok = true;
            const auto fieldOk = [&] { return info.formOn && i >= 0 && i < info.fields.size(); };
            if (a == "AddIdentity") {
                info.ids << idOf(s["x"]);
            } else if (a == "RemoveIdentity") {
                ok = i >= 0 && i < info.ids.size();
                if (ok) info.ids.removeAt(i);
            } else if (a == "AlterIdentity") {
                ok = i >= 0 && i < info.ids.size();
                if (ok) info.ids[i] = idOf(s["x"]);
            } else if (a == "SwapIds") {
                ok = i >= 0 && i + 1 < info.ids.size();
                if (ok) info.ids.swapItemsAt(i, i + 1);
            } else if (a == "AddFeature") {
                info.feats << A(s["f"]);
            } else if (a == "DupFeature") {
                ok = i >= 0 && i < info.feats.size();
                if (ok) info.feats << info.feats[i];
            } else if (a == "RemoveFeature") {
                info.feats.removeAll(A(s["f"]));
            } else if (a == "AlterFeature") {
                for (auto &f : info.feats) {
                    if (f == A(s["f"])) f = A(s["g"]);
                }
            } else if (a == "SwapFeats") {
                ok = i >= 0 && i + 1 < info.feats.size();
                if (ok) info.feats.swapItemsAt(i, i + 1);
            } else if (a == "SetForm") {
                info.formOn = true;
                info.fields = { FieldS { "FORM_TYPE", { A(s["v"]) }, {}, false } };
            } else if (a == "DropForm") {
                info.formOn = false;
                info.fields.clear();
            } else if (a == "AddField") {
                ok = info.formOn;
                if (ok) info.fields << FieldS { A(s["var"]), { A(s["v"]) }, {}, s["m"].toBool() };
            } else if (a == "RemoveField") {
                ok = fieldOk();
                if (ok) info.fields.removeAt(i);
            } else if (a == "RenameField") {
                ok = fieldOk();
                if (ok) info.fields[i].var = A(s["var"]);
            } else if (a == "RetypeField") {
                ok = fieldOk() && info.fields[i].vals.size() == 1;
                if (ok) info.fields[i].multi = !info.fields[i].multi;
            } else if (a == "AddValue") {
                ok = fieldOk() && info.fields[i].multi;
                if (ok) info.fields[i].vals << A(s["v"]);
            } else if (a == "RemoveValue") {
                ok = fieldOk() && j >= 0 && j < info.fields[i].vals.size();
                if (ok) info.fields[i].vals.removeAt(j);
            } else if (a == "AlterValue") {
                ok = fieldOk() && j >= 0 && j < info.fields[i].vals.size();
                if (ok) info.fields[i].vals[j] = A(s["v"]);
            } else if (a == "SwapFields") {
                ok = info.formOn && i >= 0 && i + 1 < info.fields.size();
                if (ok) info.fields.swapItemsAt(i, i + 1);
            } else if (a == "SwapVals") {
                ok = fieldOk() && j >= 0 && j + 1 < info.fields[i].vals.size();
                if (ok) info.fields[i].vals.swapItemsAt(j, j + 1);
            } else if (a == "Announce" || a == "SessionOpen") {
                if (!rig.client->isConnected()) {
                    fprintf(stderr, "caps: the client lost its loopback connection\n");
                    return 2;
                }
                ev["o"] = rig.emitStep(a, s["q"].toString());
                ctx.emit_(ev);
                continue;
            } else {
                fprintf(stderr, "caps: unknown op %s\n", qPrintable(a));
                return 2;
            }
            if (!ok) {
                break;  // the behaviour asks for an edit the info set does not admit
            }
            if (usesClient) {
                rig.apply(info, mk);
            }
            ev["o"] = observeDirect(info, mk);
            ctx.emit_(ev);
        }
    }
    return 0;
}
