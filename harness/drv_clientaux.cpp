// qxv clientaux — replays behaviours of spec/ClientAux.tla on a real QXmppClient connected over
// loopback TCP to a scripted peer living in the same thread (extension `clientaux`: CsiManager,
// CarbonManager + QXmppCarbonManagerV2, FastTokenManager).
//
// Behaviour: {"cfg":{"carb":bool,"fast":bool,"tok0":bool},
//             "steps":[{"k":"Connect","f":{s2,b2,b2csi,b2carb,b2sm,r2,fast}},{"k":"AuthOk2","tk":bool,"res":"none|resumed|failed","bnd":"none|plain|sm"},
//                      {"k":"PostFeatures","g":{csi,sm}},{"k":"SetState","v":"inactive"},{"k":"Cut"},…]}
// Trace line per step:
//   {"e":<k>, <arguments>, "out":[{k,mech,bind,inact,carb,sm,res,rtok,fast,tok}…], "sig":[…],
//    "post":{phase,authed,session,app,b2Bound,cEn,smEn,smRes,canRes,tok,hasTok,tokChg,conn}, "hang":bool}
// `out` is read from the client's own logger (SentMessage records), `post` through the public API and
// the repository's TestClient friend seam; the peer only plays the server's side of the script.
#include "clientaux_peer.h"
#include "qxv.h"

namespace {

using namespace qxvaux;

struct Runner {
    Ctx &ctx;
    LoopPeer peer;
    std::unique_ptr<TestClient> c;
    QStringList sig;
    int sentSeen = 0;
    bool hang = false;
    bool lastHang = false;
    // peer-side bookkeeping (what an honest server would know)
    QString bindId;
    int tokensIssued = 1;      // "tok1" is the token stored initially (if any); the peer issues tok2, tok3, …
    bool streamBound = false;  // this stream has a session (bind2, bind or resumption)
    bool smOn = false;         // stream management is active on this stream
    int smMark = 0;            // index into c->sent where the current SM session's stanza count starts
    int smAcked = 0;           // last h the peer has sent
    Sent lastAuth;             // the authentication request of this stream

    explicit Runner(Ctx &ctx) : ctx(ctx) { }

    void newClient(const QJsonObject &cfg)
    {
        c.reset(new TestClient(TestClient::NoExtensions, USER + "@" + DOMAIN_ + "/qxv"));
        sig.clear();
        sentSeen = 0;
        hang = false;
        bindId.clear();
        tokensIssued = 1;
        streamBound = false;
        smOn = false;
        smMark = 0;
        smAcked = 0;
        lastAuth = {};
        auto &conf = c->configuration();
        conf.setHost("127.0.0.1");
        conf.setPort(peer.port());
        conf.setPassword(PASSWORD);
        conf.setAutoReconnectionEnabled(false);
        conf.setIgnoreSslErrors(true);
        conf.setKeepAliveInterval(0);
        conf.setDisabledSaslMechanisms({});
        conf.setStreamSecurityMode(QXmppConfiguration::TLSDisabled);
        conf.setUseSasl2Authentication(true);
        conf.setUseSASLAuthentication(true);
        conf.setUseNonSASLAuthentication(false);
        conf.setUseFastTokenAuthentication(true);
        if (cfg["fast"].toBool()) {
            conf.setSasl2UserAgent(QXmppSasl2UserAgent(QUuid::fromString(QStringLiteral("{d4565b27-f75e-4a52-b6d7-3a1f8a8f0c11}")), "qxv", "harness"));
        }
        if (cfg["tok0"].toBool()) {
            conf.credentialData().htToken = QXmpp::Private::HtToken {
                *QXmpp::Private::SaslHtMechanism::fromString(u"HT-SHA-256-NONE"), tokenName(1),
                QDateTime(QDate(2030, 1, 1), QTime(0, 0), Qt::UTC)
            };
        }
        if (cfg["carb"].toBool()) {
            c->addNewExtension<QXmppCarbonManagerV2>();
        }
        QObject::connect(c.get(), &QXmppClient::connected, c.get(), [this] { sig << "connected"; });
        QObject::connect(c.get(), &QXmppClient::disconnected, c.get(), [this] { sig << "disconnected"; });
        QObject::connect(c.get(), &QXmppClient::error, c.get(), [this](QXmppClient::Error) { sig << "error"; });
        QObject::connect(c.get(), &QXmppClient::credentialsChanged, c.get(), [this] { sig << "credentialsChanged"; });
    }

    bool clientSocketUp() const { return c->stream()->socket()->state() == QAbstractSocket::ConnectedState; }
    bool clientSocketIdle() const { return c->stream()->socket()->state() == QAbstractSocket::UnconnectedState; }

    // wait until the client has consumed what the peer wrote and has nothing left to write
    void settle(int receivedBefore, bool expectConsume)
    {
        bool ok = qxvSpin([&] {
            return !expectConsume || c->receivedCount > receivedBefore || !clientSocketUp();
        });
        qxvDrain();
        ok = ok && qxvSpin([&] {
            return !(clientSocketUp() && c->stream()->socket()->bytesToWrite() > 0);
        });
        qxvDrain();
        if (!ok) {
            hang = true;
        }
    }

    QString phase() const
    {
        auto *p = c->streamPrivate();
        if (!clientSocketUp()) {
            return "Down";
        }
        if (p->sessionStarted) {
            return "Up";
        }
        // listener variant: 0 client, 1 starttls, 2 legacy, 3 sasl, 4 sasl2, 5 stream management, 6 bind
        switch (p->listener.index()) {
        case 3:
        case 4:
            return "Auth";
        case 5: {
            auto sm = c->smProbe();
            return sm.request == 1 ? "Resuming" : sm.request == 2 ? "Enabling" : "Sm";
        }
        case 6:
            return "Binding";
        case 0:
            return c->isAuthenticated() ? "Authed" : "Start";
        default:
            return "Other";
        }
    }

    int storedToken() const
    {
        const auto &t = c->configuration().credentialData().htToken;
        return t ? tokenIndex(t->secret) : 0;
    }

    QJsonObject post()
    {
        auto *p = c->streamPrivate();
        auto sm = c->smProbe();
        return QJsonObject {
            { "phase", phase() },
            { "authed", c->isAuthenticated() },
            { "session", p->sessionStarted && clientSocketUp() },
            { "app", c->isActive() ? "active" : "inactive" },
            { "b2Bound", p->bind2Bound.has_value() },
            { "cEn", c->stream()->carbonManager().enabled() },
            { "smEn", sm.enabled },
            { "smRes", sm.resumed },
            { "canRes", sm.canResume },
            { "tok", storedToken() },
            { "tokChg", p->fastTokenManager.tokenChanged() },
            { "conn", peer.connections },
        };
    }

    // number of stanzas the peer has received on the current SM session
    int stanzasOnSmSession() const
    {
        int n = 0;
        for (int i = smMark; i < c->sent.size(); ++i) {
            if (isStanza(c->sent[i])) {
                ++n;
            }
        }
        return n;
    }

    // an honest server acknowledges what it has received (otherwise every stanza of the session
    // would be retransmitted after a resumption, which is C09's subject, not this extension's)
    void ackIfNeeded()
    {
        if (!smOn || !clientSocketUp() || !peer.isOpen() || !c->smProbe().enabled) {
            return;
        }
        int h = stanzasOnSmSession();
        if (h == smAcked) {
            return;
        }
        int rc0 = c->receivedCount;
        peer.write("<a xmlns='urn:xmpp:sm:3' h='" + QByteArray::number(h) + "'/>");
        smAcked = h;
        settle(rc0, true);
    }

    void emitStep(QJsonObject ev)
    {
        ackIfNeeded();
        QJsonArray out;
        for (; sentSeen < c->sent.size(); ++sentSeen) {
            auto s = classify(c->sent[sentSeen], tokensIssued);
            if (s.kind == "BindRequest") {
                bindId = s.id;
            }
            if (s.kind == "Sasl2Authenticate" || s.kind == "SaslAuth") {
                lastAuth = s;
            }
            out.append(s.toJson());
        }
        ev["out"] = out;
        ev["sig"] = jarr(sig);
        sig.clear();
        ev["post"] = post();
        ev["hang"] = hang;
        lastHang = hang;
        hang = false;
        ctx.emit_(ev);
    }

    // Would an honest server make this move now?  (The behaviour comes from the model; if the client
    // is somewhere else -- a diverging implementation -- the execution ends here.)
    bool possible(const QJsonObject &s) const
    {
        auto k = s["k"].toString();
        if (k == "SetState") {
            return true;
        }
        if (k == "Connect") {
            return clientSocketIdle();
        }
        if (k == "Cut" || k == "Disconnect") {
            return clientSocketUp() && peer.isOpen();
        }
        if (!clientSocketUp() || !peer.isOpen()) {
            return false;
        }
        auto ph = phase();
        auto li = c->streamPrivate()->listener.index();
        if (k == "AuthOk") {
            return ph == "Auth" && li == 3;
        }
        if (k == "AuthFail") {
            return ph == "Auth";
        }
        if (k == "AuthOk2") {
            if (ph != "Auth" || li != 4) {
                return false;
            }
            bool wantsRes = s["res"].toString() != "none";
            bool wantsBnd = s["bnd"].toString() != "none";
            return wantsRes == lastAuth.res && (!wantsBnd || lastAuth.bind) && (s["bnd"].toString() != "sm" || lastAuth.sm);
        }
        if (k == "PostFeatures") {
            return ph == "Authed";
        }
        if (k == "Resumed" || k == "ResumeFailed") {
            return ph == "Resuming";
        }
        if (k == "BindOk") {
            return ph == "Binding";
        }
        if (k == "Enabled" || k == "EnableFailed") {
            return ph == "Enabling";
        }
        return false;
    }

    void step(const QJsonObject &s)
    {
        auto k = s["k"].toString();
        QJsonObject ev = s;
        ev.remove("k");
        ev["e"] = k;
        int rc0 = c->receivedCount;
        if (k == "SetState") {
            c->setActive(s["v"].toString() == "active");
            settle(rc0, false);
            emitStep(ev);
            return;
        }
        if (k == "Connect") {
            int n0 = peer.connections;
            streamBound = false;
            smOn = false;
            lastAuth = {};
            c->connectToServer(c->configuration());
            bool ok = peer.waitConnection(n0 + 1) && qxvSpin([&] { return peer.received.contains("<stream:stream") || clientSocketIdle(); });
            c->stream()->socket()->setSocketOption(QAbstractSocket::LowDelayOption, 1);
            qxvDrain();
            if (ok && clientSocketUp()) {
                rc0 = c->receivedCount;
                peer.write(streamHeader(peer.connections) + preFeatures(s["f"].toObject()));
                settle(rc0, true);
            } else {
                hang = !ok;
            }
            emitStep(ev);
            return;
        }
        if (k == "Cut") {
            peer.cut();
            hang = !qxvSpin([&] { return clientSocketIdle(); });
            qxvDrain();
            streamBound = false;
            smOn = false;
            emitStep(ev);
            return;
        }
        if (k == "Disconnect") {
            c->disconnectFromServer();
            hang = !qxvSpin([&] { return clientSocketIdle(); });
            qxvDrain();
            streamBound = false;
            smOn = false;
            emitStep(ev);
            return;
        }
        // --- server elements ---
        QByteArray x;
        bool closes = false;
        bool restart = false;
        if (k == "AuthOk") {
            x = "<success xmlns='urn:ietf:params:xml:ns:xmpp-sasl'/>";
            restart = true;
        } else if (k == "AuthFail") {
            x = lastAuth.kind == "Sasl2Authenticate"
                ? "<failure xmlns='urn:xmpp:sasl:2'><not-authorized xmlns='urn:ietf:params:xml:ns:xmpp-sasl'/></failure>"
                : "<failure xmlns='urn:ietf:params:xml:ns:xmpp-sasl'><not-authorized/></failure>";
            closes = true;
        } else if (k == "AuthOk2") {
            QByteArray inner;
            auto bnd = s["bnd"].toString();
            auto res = s["res"].toString();
            if (bnd == "plain") {
                inner += lastAuth.sm
                    ? "<bound xmlns='urn:xmpp:bind:0'><failed xmlns='urn:xmpp:sm:3'><internal-server-error xmlns='urn:ietf:params:xml:ns:xmpp-stanzas'/></failed></bound>"
                    : "<bound xmlns='urn:xmpp:bind:0'/>";
            } else if (bnd == "sm") {
                inner += "<bound xmlns='urn:xmpp:bind:0'><enabled xmlns='urn:xmpp:sm:3' id='qxv-sm' resume='true'/></bound>";
            }
            if (res == "resumed") {
                inner += "<resumed xmlns='urn:xmpp:sm:3' h='" + QByteArray::number(stanzasOnSmSession()) + "' previd='qxv-sm'/>";
            } else if (res == "failed") {
                inner += "<failed xmlns='urn:xmpp:sm:3'><item-not-found xmlns='urn:ietf:params:xml:ns:xmpp-stanzas'/></failed>";
            }
            if (s["tk"].toBool()) {
                ++tokensIssued;
                ev["newTok"] = tokensIssued;
                inner += "<token xmlns='urn:xmpp:fast:0' expiry='2030-01-01T00:00:00Z' token='" + tokenName(tokensIssued).toUtf8() + "'/>";
            }
            x = "<success xmlns='urn:xmpp:sasl:2'><authorization-identifier>me@example.org/qxv</authorization-identifier>" + inner + "</success>";
            if (bnd != "none") {
                streamBound = true;
                if (bnd == "sm") {
                    smOn = true;
                    smMark = c->sent.size();
                    smAcked = 0;
                }
            }
            if (res == "resumed") {
                streamBound = true;
                smOn = true;
                smAcked = stanzasOnSmSession();
            }
        } else if (k == "PostFeatures") {
            x = postFeatures(s["g"].toObject(), !streamBound);
        } else if (k == "Resumed") {
            x = "<resumed xmlns='urn:xmpp:sm:3' h='" + QByteArray::number(stanzasOnSmSession()) + "' previd='qxv-sm'/>";
            streamBound = true;
            smOn = true;
            smAcked = stanzasOnSmSession();
        } else if (k == "ResumeFailed") {
            x = "<failed xmlns='urn:xmpp:sm:3'><item-not-found xmlns='urn:ietf:params:xml:ns:xmpp-stanzas'/></failed>";
        } else if (k == "BindOk") {
            auto id = bindId.isEmpty() ? QString("qxv-b") : bindId;
            x = "<iq type='result' id='" + id.toUtf8() + "'><bind xmlns='urn:ietf:params:xml:ns:xmpp-bind'><jid>me@example.org/qxv</jid></bind></iq>";
            streamBound = true;
        } else if (k == "Enabled") {
            x = QByteArray("<enabled xmlns='urn:xmpp:sm:3' id='qxv-sm'") + (s["resume"].toBool() ? " resume='true'" : "") + "/>";
            smOn = true;
            smMark = c->sent.size();
            smAcked = 0;
        } else if (k == "EnableFailed") {
            x = "<failed xmlns='urn:xmpp:sm:3'><internal-server-error xmlns='urn:ietf:params:xml:ns:xmpp-stanzas'/></failed>";
        } else {
            fprintf(stderr, "clientaux: unknown step %s\n", qPrintable(k));
            exit(2);
        }
        peer.takeReceived();
        peer.write(x);
        settle(rc0, true);
        if (restart) {
            // the client restarts the stream after SASL <success/>; the server answers with its header
            bool ok = qxvSpin([&] { return peer.received.contains("<stream:stream") || !clientSocketUp(); });
            if (ok && clientSocketUp()) {
                int rc1 = c->receivedCount;
                peer.write(streamHeader(peer.connections));
                settle(rc1, true);
            } else if (!ok) {
                hang = true;
            }
        }
        if (closes) {
            hang = !qxvSpin([&] { return clientSocketIdle(); }) || hang;
            qxvDrain();
            streamBound = false;
            smOn = false;
        }
        emitStep(ev);
    }

    void run(const QString &caseId, const QJsonObject &beh)
    {
        auto cfg = beh["cfg"].toObject();
        newClient(cfg);
        ctx.reset(caseId, { { "cfg", cfg }, { "conn0", peer.connections } });
        const auto steps = beh["steps"].toArray();
        for (const auto &sv : steps) {
            auto s = sv.toObject();
            if (!possible(s)) {
                ctx.emit_({ { "e", "Impossible" }, { "step", s }, { "phase", phase() } });
                break;
            }
            step(s);
            if (lastHang) {
                break;  // already recorded with "hang":true; do not pile timeouts on top
            }
        }
        c.reset();
        qxvDrain();
        ctx.emit_({ { "e", "End" } });
    }
};

}  // namespace

QXV_DRIVER(clientaux)
{
    Runner r(ctx);
    int n = 0;
    const auto behs = ctx.behaviours();
    for (const auto &bv : behs) {
        r.run(QString("x%1").arg(++n), bv.toObject());
    }
    return 0;
}
