// qxv blocking — drives a real QXmppClient + QXmppBlockingManager along behaviours of spec/Blocking.tla
// (extension `blocking`, XEP-0191).
//
// The client is the in-memory TestClient of fixture.h with the session moves of blocking_session.h (socketpair,
// real closeSession() through the socket, openSession() body).  The server, the other resources and the foreign
// entities exist only in the model: what they "send" arrives as Deliver / Foreign / PushGet / ForeignRes steps and
// is injected through the real receive path (QXmppOutgoingClient::handlePacketReceived); Srv / Other steps do not
// touch the client at all (they are logged with the observation, which must not change).
//
// Behaviour: {"id":"b7","srv0":["j1"],"steps":[{"a":"Fetch","re":false},{"a":"Srv","rq":{..},"mode":"pf"},
//             {"a":"Deliver","m":{"k":"fres","id":1,"J":["j1"]},"fr":"none"}, ...]}
// Trace line per step (spec/BlockingTrace.tla): the event with its arguments, "e" = its kind, and
//   o = {sub, list:[..], sent:[{k,id,J,c}], sig:[{s,J}], done:[{t,r,J}], started:[..]}
// Probe steps ({"a":"Probe","L":[..],"q":".."}) evaluate QXmppBlocklist(L).blockingState(q):
//   o = {kind:"none|partial|blocked", bl:[..], pl:[..]}.
#include "blocking_session.h"
#include "blocking_supervise.h"
#include "qxv.h"

#include "QXmppBlockingManager.h"
#include "QXmppUtils.h"

#include <algorithm>
#include <memory>

namespace {

const QString kOwnBare = QStringLiteral("me@example.org");
const QString kOwnFull = QStringLiteral("me@example.org/dev1");
const char *kNs = "urn:xmpp:blocking";

// the blocklist entries of the protocol model: a full JID, a domain, a bare JID (string order = model order, so that
// the sorted cache of the manager and the sorted sequences of the model list them alike)
const QMap<QString, QString> kJids {
    { "j1", "iago@shakespeare.lit/ship" }, { "j2", "montague.net" }, { "j3", "romeo@montague.net" }
};
QString realJid(const QString &j) { return kJids.value(j, "unknown-" + j + "@invalid.example"); }
QString modelJid(const QString &real)
{
    const auto k = kJids.key(real);
    return k.isEmpty() ? "?" + real : k;
}
QStringList modelJids(const QVector<QString> &reals, bool sorted)
{
    QStringList r;
    for (const auto &j : reals) {
        r << modelJid(j);
    }
    if (sorted) {
        r.sort();
    }
    return r;
}
QVector<QString> realJids(const QJsonArray &a)
{
    QVector<QString> r;
    for (const auto &v : a) {
        r << realJid(v.toString());
    }
    return r;
}
QString itemsXml(const QJsonArray &a)
{
    QString s;
    for (const auto &v : a) {
        s += QStringLiteral("<item jid='%1'/>").arg(realJid(v.toString()));
    }
    return s;
}

QJsonObject snt(const QString &k, int id, const QStringList &J, const QString &c)
{
    return { { "k", k }, { "id", id }, { "J", jarr(J) }, { "c", c } };
}

struct Env : QObject {
    std::unique_ptr<TestClient> c;
    std::unique_ptr<QxvSession> sess;
    QXmppBlockingManager *mgr = nullptr;
    QJsonArray sig, done;
    QStringList started;
    QMap<int, QString> reqId;   // n-th request written -> its IQ id
    int nreq = 0, ntask = 0, npush = 0;
    QString pushId, pushFrom;   // the push injected in this step (its answer is matched against them)

    ~Env() override
    {
        sess.reset();
        c.reset();
    }

    bool start()
    {
        TestClient::resetIdCounter();
        c = std::make_unique<TestClient>(TestClient::NoExtensions, kOwnFull);
        mgr = c->addNewExtension<QXmppBlockingManager>();
        QObject::connect(mgr, &QXmppBlockingManager::subscribedChanged, this, [this] { sig.append(QJsonObject { { "s", "sub" }, { "J", QJsonArray() } }); });
        QObject::connect(mgr, &QXmppBlockingManager::blocked, this, [this](const QVector<QString> &j) {
            sig.append(QJsonObject { { "s", "blocked" }, { "J", jarr(modelJids(j, false)) } });
        });
        QObject::connect(mgr, &QXmppBlockingManager::unblocked, this, [this](const QVector<QString> &j) {
            sig.append(QJsonObject { { "s", "unblocked" }, { "J", jarr(modelJids(j, false)) } });
        });
        sess = std::make_unique<QxvSession>(*c);
        if (!sess->open(false) || !c->isConnected()) {
            return false;
        }
        int stanzas = 0;
        sentProjection(stanzas);  // the initial presence
        sess->acknowledge(stanzas);
        nreq = 0;
        reqId.clear();
        sig = {};
        done = {};
        return true;
    }

    void finished(const QString &t, const QString &r, const QStringList &J) { done.append(QJsonObject { { "t", t }, { "r", r }, { "J", jarr(J) } }); }

    void watchFetch(const QString &t, bool retry)
    {
        started << t;
        mgr->fetchBlocklist().then(this, [this, t, retry](QXmppBlockingManager::BlocklistResult &&r) {
            if (auto *bl = std::get_if<QXmppBlocklist>(&r)) {
                finished(t, "list", modelJids(bl->entries(), true));
                return;
            }
            finished(t, "err", {});
            // the application tries once more when the SERVER refused (not when the request was cancelled or unsent)
            if (retry && std::get<QXmppError>(r).isStanzaError()) {
                watchFetch(t + "r", false);
            }
        });
    }
    void watchCmd(const QString &t, QXmppTask<QXmppBlockingManager::Result> task)
    {
        started << t;
        task.then(this, [this, t](QXmppBlockingManager::Result &&r) {
            finished(t, std::holds_alternative<QXmpp::Success>(r) ? "ok" : "err", {});
        });
    }

    // what the client wrote during the step
    QJsonArray sentProjection(int &stanzas)
    {
        QJsonArray r;
        const bool onWire = sess->socketConnected();
        for (const auto &s : c->takeSent()) {
            if (!onWire) {
                continue;  // XmppSocket::sendData logs before it notices that there is no connection
            }
            if (!s.startsWith("<presence") && !s.startsWith("<message") && !s.startsWith("<iq")) {
                r.append(snt("other", 0, {}, s.left(12)));
                continue;
            }
            ++stanzas;
            QxvXml x(s);
            const auto tag = x.el.tagName(), type = x.el.attribute("type"), id = x.el.attribute("id"), to = x.el.attribute("to");
            if (tag == "presence") {
                r.append(snt("pres", 0, {}, type));
                continue;
            }
            if (tag != "iq") {
                r.append(snt("other", 0, {}, tag));
                continue;
            }
            const auto ch = x.el.firstChildElement();
            if ((type == "get" || type == "set") && ch.namespaceURI() == kNs && to.isEmpty()) {
                QVector<QString> items;
                for (auto it = ch.firstChildElement("item"); !it.isNull(); it = it.nextSiblingElement("item")) {
                    items << it.attribute("jid");
                }
                const auto k = ch.tagName() == "blocklist" && type == "get" ? QStringLiteral("fetch")
                    : ch.tagName() == "block" && type == "set"              ? QStringLiteral("block")
                    : ch.tagName() == "unblock" && type == "set"            ? QStringLiteral("unblock")
                                                                            : QStringLiteral("other");
                reqId[++nreq] = id;
                r.append(snt(k, nreq, modelJids(items, false), ""));
            } else if ((type == "result" || type == "error") && !pushId.isEmpty() && id == pushId && to == pushFrom) {
                if (type == "result") {
                    r.append(snt("ack", 0, {}, ""));
                } else {
                    const auto cond = x.el.firstChildElement("error").firstChildElement();
                    r.append(snt("deny", 0, {}, cond.tagName()));
                }
            } else {
                r.append(snt("other", 0, {}, "iq:" + type + ":" + id + ":" + to));
            }
        }
        return r;
    }

    QJsonObject observe()
    {
        QStringList list;
        const bool sub = mgr->isSubscribed();
        if (sub) {
            // while subscribed fetchBlocklist() answers from the cache (a ready task): no request, no promise
            bool got = false;
            mgr->fetchBlocklist().then(this, [&](QXmppBlockingManager::BlocklistResult &&r) {
                got = true;
                if (auto *bl = std::get_if<QXmppBlocklist>(&r)) {
                    list = modelJids(bl->entries(), true);
                } else {
                    list = QStringList { "?error" };
                }
            });
            if (!got) {
                list = QStringList { "?pending" };
            }
        }
        int stanzas = 0;
        QJsonObject o { { "sub", sub }, { "list", jarr(list) }, { "sent", sentProjection(stanzas) }, { "sig", sig }, { "done", done }, { "started", jarr(started) } };
        sig = {};
        done = {};
        started.clear();
        pushId.clear();
        pushFrom.clear();
        sess->acknowledge(stanzas);
        return o;
    }

    QString fromAttr(const QString &fr, QString &fromOut)
    {
        fromOut = fr == "bare" ? kOwnBare
            : fr == "other"    ? QStringLiteral("mallory@evil.example/x")
            : fr == "full"     ? QStringLiteral("me@example.org/dev2")
            : fr == "domain"   ? QStringLiteral("example.org")
                               : QString();
        return fromOut.isEmpty() ? QString() : QStringLiteral(" from='%1'").arg(fromOut);
    }

    void injectPush(const QString &k, const QJsonArray &J, const QString &fr, const QString &type)
    {
        pushId = QStringLiteral("push%1").arg(++npush);
        const auto from = fromAttr(fr, pushFrom);
        c->inject(QStringLiteral("<iq type='%1' id='%2'%3 to='%4'><%5 xmlns='%6'>%7</%5></iq>")
                      .arg(type, pushId, from, kOwnFull, k == "pblock" ? "block" : "unblock", kNs, itemsXml(J)));
    }

    void injectAnswer(const QString &k, int n, const QJsonArray &J, const QString &fr)
    {
        const auto id = reqId.value(n, QStringLiteral("unknown-%1").arg(n));
        QString dummy;
        const auto from = fromAttr(fr, dummy);
        if (k == "fres") {
            c->inject(QStringLiteral("<iq type='result' id='%1'%2 to='%3'><blocklist xmlns='%4'>%5</blocklist></iq>").arg(id, from, kOwnFull, kNs, itemsXml(J)));
        } else if (k == "res") {
            c->inject(QStringLiteral("<iq type='result' id='%1'%2 to='%3'/>").arg(id, from, kOwnFull));
        } else {
            c->inject(QStringLiteral("<iq type='error' id='%1'%2 to='%3'><error type='cancel'><not-allowed xmlns='urn:ietf:params:xml:ns:xmpp-stanzas'/></error></iq>")
                          .arg(id, from, kOwnFull));
        }
    }
};

QJsonObject probe(const QJsonArray &L, const QString &q)
{
    QVector<QString> entries;
    for (const auto &v : L) {
        entries << v.toString();
    }
    const QXmppBlocklist bl(entries);
    const auto st = bl.blockingState(q);
    auto sorted = [](QVector<QString> v) {
        QStringList l(v.begin(), v.end());
        l.sort();
        return jarr(l);
    };
    if (auto *b = std::get_if<QXmppBlocklist::Blocked>(&st)) {
        return { { "kind", "blocked" }, { "bl", sorted(b->blockingEntries) }, { "pl", sorted(b->partiallyBlockingEntries) } };
    }
    if (auto *p = std::get_if<QXmppBlocklist::PartiallyBlocked>(&st)) {
        return { { "kind", "partial" }, { "bl", QJsonArray() }, { "pl", sorted(p->partiallyBlockingEntries) } };
    }
    return { { "kind", "none" }, { "bl", QJsonArray() }, { "pl", QJsonArray() } };
}

void runBehaviour(Ctx &ctx, const QString &caseId, const QJsonObject &beh)
{
    ctx.reset(caseId, { { "srv0", beh["srv0"].toArray() } });
    ctx.out.flush();  // a crash inside the library must not lose the executions already recorded
    Env e;
    if (!e.start()) {
        fprintf(stderr, "blocking: the in-memory session could not be established\n");
        exit(2);
    }
    for (const auto &sv : beh["steps"].toArray()) {
        const auto s = sv.toObject();
        const auto a = s["a"].toString();
        QJsonObject ev = s;
        ev["e"] = a;
        if (a == "Probe") {
            ev["o"] = probe(s["L"].toArray(), s["q"].toString());
            ctx.emit_(ev);
            ctx.out.flush();
            continue;
        }
        if (a == "Fetch") {
            e.watchFetch(QStringLiteral("t%1").arg(++e.ntask), s["re"].toBool());
        } else if (a == "Block") {
            e.watchCmd(QStringLiteral("t%1").arg(++e.ntask), e.mgr->block(realJids(s["J"].toArray())));
        } else if (a == "Unblock") {
            e.watchCmd(QStringLiteral("t%1").arg(++e.ntask), e.mgr->unblock(realJids(s["J"].toArray())));
        } else if (a == "Deliver") {
            const auto m = s["m"].toObject();
            const auto k = m["k"].toString();
            if (!e.sess->up) {
                // the model delivers only on a live session; a hand-written behaviour may not: nothing can arrive
            } else if (k == "pblock" || k == "punblock") {
                e.injectPush(k, m["J"].toArray(), s["fr"].toString(), "set");
            } else {
                e.injectAnswer(k, m["id"].toInt(), m["J"].toArray(), s["fr"].toString());
            }
        } else if (a == "Foreign") {
            if (e.sess->up) {
                e.injectPush(s["k"].toString(), s["J"].toArray(), s["fr"].toString(), "set");
            }
        } else if (a == "PushGet") {
            if (e.sess->up) {
                e.injectPush(s["k"].toString(), {}, "none", "get");
            }
        } else if (a == "ForeignRes") {
            if (e.sess->up) {
                e.injectAnswer(s["k"].toString(), s["id"].toInt(), QJsonArray { "j1" }, "other");
            }
        } else if (a == "Srv" || a == "Other") {
            // moves of the environment that do not reach the client yet
        } else if (a == "Disconnect") {
            if (e.sess->up) {
                e.sess->close(s["kd"].toString() == "resumable");
            }
        } else if (a == "Connect") {
            if (!e.sess->up && !e.sess->open(s["kc"].toString() == "resumed")) {
                fprintf(stderr, "blocking: reconnect failed\n");
                exit(2);
            }
        } else {
            fprintf(stderr, "blocking: unknown step %s\n", qPrintable(a));
            exit(2);
        }
        QCoreApplication::processEvents();
        ev["o"] = e.observe();
        ctx.emit_(ev);
        ctx.out.flush();  // what was observed before a crash is kept
    }
}

}  // namespace

QXV_DRIVER(blocking)
{
    const auto behs = ctx.behaviours();
    auto caseId = [&](int i) {
        const auto b = behs[i].toObject();
        return b.contains("id") ? b["id"].toString() : QStringLiteral("b%1").arg(i + 1);
    };
    return qxvSupervise(ctx, behs.size(), [&](int i) { runBehaviour(ctx, caseId(i), behs[i].toObject()); }, caseId);
}
