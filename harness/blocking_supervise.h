// Crash containment for drivers that replay many executions in one process (drv_blocking.cpp, drv_mam.cpp).
//
// The executions run in a forked child.  When the child dies (a sanitizer report ends the process, an assertion of
// the library, a signal), the parent closes the execution it died in with a {"e":"Crash","case":..} trace line and
// forks the next child for the executions after it, so that one memory error in the library costs one execution,
// not the run.  The sanitizer reports stay on stderr in the order of the Crash lines (lib/ext/*.py pairs them).
// Trace lines are flushed after every execution by the child and after every step by the drivers' emit helper
// (flushEvery), so that what was observed before the crash is kept.
#pragma once

#include "qxv.h"

#include <functional>

#include <sys/wait.h>
#include <unistd.h>

// run(i) replays execution i (0-based) and writes its trace lines; caseId(i) is the id its Reset line carries
inline int qxvSupervise(Ctx &ctx, int n, const std::function<void(int)> &run, const std::function<QString(int)> &caseId)
{
    int next = 0;
    int crashes = 0;
    while (next < n) {
        ctx.out.flush();
        int pfd[2];
        if (::pipe(pfd) != 0) {
            fprintf(stderr, "qxv: pipe failed\n");
            return 2;
        }
        fflush(stderr);
        const pid_t pid = ::fork();
        if (pid < 0) {
            fprintf(stderr, "qxv: fork failed\n");
            return 2;
        }
        if (pid == 0) {
            ::close(pfd[0]);
            for (int i = next; i < n; ++i) {
                if (::write(pfd[1], &i, sizeof i) != sizeof i) {
                    _exit(4);
                }
                run(i);
                ctx.out.flush();
            }
            // how many executions and lines this child wrote (the parent keeps the counters)
            const qint64 tail[2] = { ctx.cases, ctx.lines };
            const int end = -1;
            if (::write(pfd[1], &end, sizeof end) != sizeof end || ::write(pfd[1], tail, sizeof tail) != sizeof tail) {
                _exit(4);
            }
            _exit(0);
        }
        ::close(pfd[1]);
        int last = -2, v = 0;
        bool clean = false;
        while (::read(pfd[0], &v, sizeof v) == sizeof v) {
            if (v == -1) {
                qint64 tail[2] = { 0, 0 };
                if (::read(pfd[0], tail, sizeof tail) == sizeof tail) {
                    ctx.cases = tail[0];
                    ctx.lines = tail[1];
                    clean = true;
                }
                break;
            }
            last = v;
        }
        ::close(pfd[0]);
        int status = 0;
        ::waitpid(pid, &status, 0);
        if (clean && WIFEXITED(status) && WEXITSTATUS(status) == 0) {
            return 0;
        }
        if (last < next) {
            fprintf(stderr, "qxv: the replay process died before it started an execution (status %d)\n", status);
            return 2;
        }
        ++crashes;
        ctx.out.seek(ctx.out.size());  // the child wrote through the same descriptor
        ctx.emit_(QJsonObject { { "e", "Crash" }, { "case", caseId(last) },
                                { "status", WIFSIGNALED(status) ? QStringLiteral("signal %1").arg(WTERMSIG(status)) : QStringLiteral("exit %1").arg(WEXITSTATUS(status)) } });
        ctx.out.flush();
        fprintf(stderr, "QXV-CRASH case=%s\n", qPrintable(caseId(last)));
        next = last + 1;
    }
    return 0;
}
