// qxv ibb — drives two real QXmppTransferManagers (in-band bytestreams only) along behaviours of
// spec/Ibb.tla.  The harness is the network: every stanza one client sends is captured from its
// logger, kept in a FIFO channel, and injected into the other client's receive path stamped with
// the sender's full JID; the behaviour decides when a stanza is delivered and which fault the
// network applies to the data block at the head of the channel.
//
// Behaviour: {"n":3,"size":12000,"bs":4096,"sender":"real"|"script","ann":"both|size|hash|none",
//             "steps":[{"a":"Offer"},
//             {"a":"RDeliver"},{"a":"SDeliver"},{"a":"Fault","k":"Dup"},{"a":"Inject","w":"from"},
//             {"a":"Burst","k":65535}, ...]}
// "sender":"script": the sending side is the specification's sender transcribed into the harness
// (any block size; the library's own sender always uses 4096), the receiver is the real one.
// After the listed steps the exchange is drained fault-free (channel to the receiver first) until
// nothing is in flight; every drained delivery is logged like a scripted one.  See
// spec/IbbTrace.tla for the record format.
#include "ibb_device.h"
#include "relay.h"

#include "QXmppIbbIq.h"
#include "QXmppStreamInitiationIq_p.h"
#include "QXmppTransferManager.h"

#include <QBuffer>
#include <QCryptographicHash>
#include <QPointer>
#include <QXmlStreamWriter>

#include <memory>
#include <optional>

namespace {

const QString kSenderJid = QStringLiteral("alice@example.org/s");
const QString kReceiverJid = QStringLiteral("bob@example.org/r");
const QString kThirdJid = QStringLiteral("mallory@example.org/x");
const QString kOtherResourceJid = QStringLiteral("alice@example.org/other");  // the sender's account, another client
const QString kSid = QStringLiteral("sid-c19");
const char *kNsIbb = "http://jabber.org/protocol/ibb";

struct Item {
    QDomDocument doc;  // stream wrapper; the stanza is its first child
    QString t;         // offer | open | data | close | other   /   res | err
    QString id;
    int seq = 0;
    int blk = 0;  // which block of the stream this is (0: not a block of the stream)
    int pay = 0;  // blk if the payload is that block's bytes, else 0
    QString sid = "ok";
    QString from = "S";

    QDomElement el() const { return doc.documentElement().firstChildElement(); }
    Item deepCopy() const
    {
        Item c = *this;
        c.doc = doc.cloneNode(true).toDocument();
        return c;
    }
    QJsonObject proj() const
    {
        return { { "t", t }, { "seq", seq }, { "pay", pay }, { "sid", sid }, { "from", from } };
    }
};

// The specification's sender (spec/Ibb.tla: Offer, SenderOn) with W = 65536, for block sizes
// the library's sender cannot be configured to use.
struct ScriptSender {
    QString state = "Idle", err = "NoError";
    int seq = 0;
    qint64 off = 0;  // bytes sent
    int nextId = 1;
    QString req;
    QByteArray file;
    int bs = 4096;
    QByteArray md5;
    bool annSize = true, annHash = true;  // what the offer announces

    QString freshId() { return QStringLiteral("s%1").arg(nextId++); }

    QStringList offer()
    {
        state = "Offer";
        QXmppTransferFileInfo info;
        info.setName("c19.bin");
        if (annSize) {
            info.setSize(file.size());
        }
        if (annHash) {
            info.setHash(md5);
        }
        QXmppDataForm form;
        form.setType(QXmppDataForm::Form);
        QXmppDataForm::Field f(QXmppDataForm::Field::ListSingleField);
        f.setKey("stream-method");
        f.setOptions({ qMakePair(QString(), QString::fromLatin1(kNsIbb)) });
        form.setFields({ f });
        QXmppStreamInitiationIq iq;
        iq.setType(QXmppIq::Set);
        iq.setTo(kReceiverJid);
        iq.setProfile(QXmppStreamInitiationIq::FileTransfer);
        iq.setFileInfo(info);
        iq.setFeatureForm(form);
        iq.setSiId(kSid);
        req = freshId();
        iq.setId(req);
        return { toXmlString(iq) };
    }

    QStringList close(const QString &e)
    {
        state = "Finished";
        err = e;
        QXmppIbbCloseIq iq;
        iq.setTo(kReceiverJid);
        iq.setSid(kSid);
        req = freshId();
        iq.setId(req);
        return { toXmlString(iq) };
    }

    QStringList onReply(const QString &type, const QString &id)
    {
        if (id != req || state == "Idle" || state == "Finished") {
            return {};
        }
        const bool ok = type == "result";
        if (state == "Offer") {
            if (!ok) {
                state = "Finished";
                err = "Abort";
                return {};
            }
            state = "Start";
            QXmppIbbOpenIq iq;
            iq.setTo(kReceiverJid);
            iq.setSid(kSid);
            iq.setBlockSize(bs);
            req = freshId();
            iq.setId(req);
            return { toXmlString(iq) };
        }
        if (!ok) {
            return close("Protocol");
        }
        if (off < file.size()) {
            state = "Transfer";
            QXmppIbbDataIq iq;
            iq.setTo(kReceiverJid);
            iq.setSid(kSid);
            iq.setSequence(quint16(seq));
            iq.setPayload(file.mid(off, bs));
            seq = (seq + 1) % 65536;
            off += qMin<qint64>(bs, file.size() - off);
            req = freshId();
            iq.setId(req);
            return { toXmlString(iq) };
        }
        return close("NoError");
    }
};

struct Exec {
    Ctx &ctx;
    QByteArray file;
    int bs;
    bool script;
    std::mt19937_64 rng;

    QBuffer sendBuf;  // the devices outlive the clients (and so the jobs that point to them)
    FaultyBuffer recvBuf;
    std::unique_ptr<TestClient> a, ownB;
    TestClient *b = nullptr;   // the receiving client (shared by the two lanes of a twin execution)
    QXmppTransferManager *ma = nullptr, *mb = nullptr;
    QString myJid = kSenderJid;   // full JID this sender's stanzas are stamped with
    Exec *peer = nullptr;         // twin execution: the other sender talking to the same receiver
    QPointer<QXmppTransferJob> sJob, rJob;
    ScriptSender ss;
    int rFinished = 0, sFinished = 0;
    QStringList rErrSig, sErrSig;

    QList<Item> s2r, r2s;
    std::optional<Item> held;
    int emittedBlocks = 0;  // data stanzas the sender has produced so far
    int accepted = 0;       // data stanzas the receiver acknowledged
    int lostReplies = 0;    // replies addressed to somebody else than the sender
    bool offered = false;

    bool annSize = true, annHash = true;  // what the offer announces about the file
    QString acceptHow = "device", destPath;   // accept(QIODevice*) or accept(filePath) (harness/ibb_device.h)
    QByteArray received() { return acceptHow == "device" ? recvBuf.data() : readDestination(rJob.data(), destPath); }

    Exec(Ctx &c, const QByteArray &f, int blockSize, bool scriptSender, quint64 seed, const QString &ann,
         Exec *shareReceiverOf = nullptr, const QString &senderJid = kSenderJid)
        : ctx(c), file(f), bs(blockSize), script(scriptSender), rng(seed), myJid(senderJid)
    {
        annSize = ann == "both" || ann == "size";
        annHash = ann == "both" || ann == "hash";
        if (shareReceiverOf) {
            b = shareReceiverOf->b;
            mb = shareReceiverOf->mb;
            peer = shareReceiverOf;
            shareReceiverOf->peer = this;
        } else {
            TestClient::resetIdCounter();
            ownB = std::make_unique<TestClient>(TestClient::NoExtensions, kReceiverJid);
            b = ownB.get();
            isolateLogger(b);
            b->fakeSession(false);
            mb = new QXmppTransferManager;
            mb->setSupportedMethods(QXmppTransferJob::InBandMethod);
            b->addExtension(mb);
        }
        QObject::connect(mb, &QXmppTransferManager::fileReceived, mb, [this](QXmppTransferJob *job) {
            if (rJob || job->jid() != myJid) {
                return;  // not this sender's offer (or a second one, not part of any behaviour): left unanswered
            }
            rJob = job;
            QObject::connect(job, &QXmppTransferJob::finished, job, [this]() { ++rFinished; });
            QObject::connect(job, QOverload<QXmppTransferJob::Error>::of(&QXmppTransferJob::error), job,
                             [this](QXmppTransferJob::Error e) { rErrSig << errorName(e); });
            if (acceptHow == "device") {
                recvBuf.open(QIODevice::WriteOnly);
                job->accept(&recvBuf);
            } else {
                job->accept(destPath);
            }
        });
        if (script) {
            ss.file = file;
            ss.bs = bs;
            ss.md5 = QCryptographicHash::hash(file, QCryptographicHash::Md5);
            ss.annSize = annSize;
            ss.annHash = annHash;
        } else {
            a = std::make_unique<TestClient>(TestClient::NoExtensions, myJid);
            isolateLogger(a.get());
            a->fakeSession(false);
            ma = new QXmppTransferManager;
            ma->setSupportedMethods(QXmppTransferJob::InBandMethod);
            a->addExtension(ma);
        }
    }

    // ---- classification of what the two sides send -------------------------------------
    QByteArray blockBytes(int k) const { return file.mid(qint64(k - 1) * bs, bs); }

    void collectFromSender(const QStringList &xmls)
    {
        for (const auto &xml : xmls) {
            Item it;
            it.doc = qxvParseStream(xml);
            auto el = it.el();
            it.id = el.attribute("id");
            it.t = "other";
            if (el.tagName() == "iq") {
                auto child = el.firstChildElement();
                if (child.tagName() == "si") {
                    it.t = "offer";
                } else if (child.namespaceURI() == kNsIbb) {
                    if (child.tagName() == "open" || child.tagName() == "close" || child.tagName() == "data") {
                        it.t = child.tagName();
                        it.sid = child.attribute("sid") == kSid ? "ok" : "bad";
                    }
                    if (it.t == "data") {
                        it.seq = child.attribute("seq").toInt();
                        it.blk = ++emittedBlocks;
                        it.pay = QByteArray::fromBase64(child.text().toLatin1()) == blockBytes(it.blk) &&
                                !blockBytes(it.blk).isEmpty()
                            ? it.blk
                            : 0;
                    }
                }
            }
            s2r.append(it);
            if (held) {
                s2r.append(*held);
                held.reset();
            }
        }
    }

    void collectFromReceiver()
    {
        const auto xmls = b->takeSent();
        for (const auto &xml : xmls) {
            Item it;
            it.doc = qxvParseStream(xml);
            auto el = it.el();
            it.id = el.attribute("id");
            const auto type = el.attribute("type");
            it.t = type == "result" ? "res" : (type == "error" ? "err" : "other");
            if (el.attribute("to") == myJid) {
                r2s.append(it);
            } else if (peer && el.attribute("to") == peer->myJid) {
                peer->r2s.append(it);
            } else {
                ++lostReplies;  // nobody is there
            }
        }
    }

    QStringList senderTakeSent() { return script ? QStringList() : a->takeSent(); }

    // ---- steps -----------------------------------------------------------------------------
    bool doOffer()
    {
        if (offered) {
            return false;
        }
        offered = true;
        if (script) {
            collectFromSender(ss.offer());
            return true;
        }
        sendBuf.setData(file);
        sendBuf.open(QIODevice::ReadOnly);
        // sendFile(jid, device, fileInfo): the application says what it knows about the data;
        // size and hash left unset = generated / streamed data of unknown length
        QXmppTransferFileInfo info;
        info.setName("c19.bin");
        if (annSize) {
            info.setSize(file.size());
        }
        if (annHash) {
            info.setHash(QCryptographicHash::hash(file, QCryptographicHash::Md5));
        }
        sJob = ma->sendFile(kReceiverJid, &sendBuf, info, kSid);
        if (sJob) {
            QObject::connect(sJob.data(), &QXmppTransferJob::finished, sJob.data(), [this]() { ++sFinished; });
            QObject::connect(sJob.data(), QOverload<QXmppTransferJob::Error>::of(&QXmppTransferJob::error), sJob.data(),
                             [this](QXmppTransferJob::Error e) { sErrSig << errorName(e); });
        }
        QCoreApplication::processEvents();
        collectFromSender(senderTakeSent());
        return true;
    }

    bool doRDeliver()
    {
        if (s2r.isEmpty()) {
            return false;
        }
        Item it = s2r.takeFirst();
        auto el = it.el();
        el.setAttribute("from", it.from == "S" ? myJid : (it.from == "Y" ? kOtherResourceJid : kThirdJid));
        const int before = r2s.size();
        b->injectElement(el);
        collectFromReceiver();
        if (it.t == "data" && r2s.size() > before && r2s.last().t == "res") {
            ++accepted;
        }
        // nothing the receiver does makes the sender speak, but a diverging library might
        return true;
    }

    bool doSDeliver()
    {
        if (r2s.isEmpty()) {
            return false;
        }
        Item it = r2s.takeFirst();
        auto el = it.el();
        if (script) {
            collectFromSender(ss.onReply(el.attribute("type"), el.attribute("id")));
        } else {
            el.setAttribute("from", kReceiverJid);
            a->injectElement(el);
            collectFromSender(senderTakeSent());
        }
        return true;
    }

    Item forged(const QString &xml, const QString &t, const QString &id)
    {
        Item it;
        it.doc = qxvParseStream(xml);
        it.t = t;
        it.id = id;
        return it;
    }

    Item forgedAck(const QString &id)
    {
        return forged(QStringLiteral("<iq id='%1' type='result' to='%2'/>").arg(id.toHtmlEscaped(), myJid), "res", id);
    }

    bool faultPossible(const QString &k) const
    {
        if (s2r.isEmpty() || s2r.first().t != "data" || s2r.first().blk <= 0) {
            return false;
        }
        return k != "Swap" || !held;
    }

    bool doFault(const QString &k)
    {
        if (!faultPossible(k)) {
            return false;
        }
        if (k == "Lose") {
            s2r.removeFirst();
        } else if (k == "Drop") {
            Item h = s2r.takeFirst();
            r2s.append(forgedAck(h.id));
        } else if (k == "Dup") {
            s2r.prepend(s2r.first());
        } else if (k == "Swap") {
            Item h = s2r.takeFirst();
            r2s.append(forgedAck(h.id));
            held = h;
        } else if (k == "Flip") {
            Item h = s2r.first().deepCopy();
            auto data = h.el().firstChildElement("data");
            auto payload = QByteArray::fromBase64(data.text().toLatin1());
            if (payload.isEmpty()) {
                return false;
            }
            const auto nbits = quint64(payload.size()) * 8;
            auto bit = rng() % nbits;
            payload[int(bit / 8)] = char(payload[int(bit / 8)] ^ (1 << (bit % 8)));
            if (payload == blockBytes(h.blk)) {
                // a second flip of the same bit would restore the block: alter another bit instead
                bit = (bit + 1) % nbits;
                payload[int(bit / 8)] = char(payload[int(bit / 8)] ^ (1 << (bit % 8)));
            }
            while (!data.firstChild().isNull()) {
                data.removeChild(data.firstChild());
            }
            data.appendChild(h.doc.createTextNode(QString::fromLatin1(payload.toBase64())));
            h.pay = 0;
            s2r[0] = h;
        } else if (k == "WrongSid") {
            Item h = s2r.first().deepCopy();
            auto data = h.el().firstChildElement("data");
            data.setAttribute("sid", data.attribute("sid") + "x");
            h.sid = "bad";
            s2r[0] = h;
        } else if (k == "WrongFrom") {
            Item h = s2r.first().deepCopy();
            h.from = "X";
            s2r[0] = h;
        } else if (k == "EarlyClose") {
            QXmppIbbCloseIq iq;
            iq.setTo(kReceiverJid);
            iq.setSid(kSid);
            iq.setId("forged-close");
            s2r[0] = forged(toXmlString(iq), "close", iq.id());
        } else {
            fprintf(stderr, "ibb: unknown fault %s\n", qPrintable(k));
            exit(2);
        }
        return true;
    }

    // An element that is not part of the stream: <open/>, a block with the sequence number the
    // receiver expects next, or <close/>, carrying the RIGHT session id, from a stranger (w "from"),
    // from another resource of the sender's account (w "res"), or from the sender for another
    // session (w "sid").
    bool doInject(const QString &w, const QString &t, int &seqOut)
    {
        if (!rJob) {
            return false;
        }
        const QString sid = w == "sid" ? kSid + "x" : kSid;
        QString xml;
        seqOut = 0;
        if (t == "data") {
            QByteArray garbage(qMax(1, qMin(bs, 64)), '\0');
            for (auto &c : garbage) {
                c = char(rng());
            }
            QXmppIbbDataIq iq;
            iq.setTo(kReceiverJid);
            iq.setSid(sid);
            seqOut = accepted % 65536;
            iq.setSequence(quint16(seqOut));
            iq.setPayload(garbage);
            iq.setId("forged-data");
            xml = toXmlString(iq);
        } else if (t == "open") {
            QXmppIbbOpenIq iq;
            iq.setTo(kReceiverJid);
            iq.setSid(sid);
            iq.setBlockSize(bs);
            iq.setId("forged-open");
            xml = toXmlString(iq);
        } else if (t == "close") {
            QXmppIbbCloseIq iq;
            iq.setTo(kReceiverJid);
            iq.setSid(sid);
            iq.setId("forged-close-3rd");
            xml = toXmlString(iq);
        } else {
            fprintf(stderr, "ibb: unknown element %s\n", qPrintable(t));
            exit(2);
        }
        Item it = forged(xml, t, "forged-" + t);
        it.seq = seqOut;
        it.sid = w == "sid" ? "bad" : "ok";
        it.from = w == "from" ? "X" : (w == "res" ? "Y" : "S");
        s2r.prepend(it);
        return true;
    }

    bool steady() const
    {
        return s2r.size() == 1 && r2s.isEmpty() && !held && s2r.first().t == "data" && s2r.first().blk > 0;
    }

    // k fault-free rounds: block delivered, acknowledgement delivered
    int doBurst(int k)
    {
        int done = 0;
        while (done < k && steady()) {
            doRDeliver();
            if (r2s.size() != 1 || !s2r.isEmpty()) {
                break;
            }
            doSDeliver();
            ++done;
        }
        return done;
    }

    // ---- observation -------------------------------------------------------------------------
    QJsonObject observe(bool withEq)
    {
        QJsonArray q1, q2;
        for (const auto &it : std::as_const(s2r)) {
            q1.append(it.proj());
        }
        for (const auto &it : std::as_const(r2s)) {
            q2.append(QJsonObject { { "t", it.t } });
        }
        QJsonObject o {
            { "rs", rJob ? stateName(rJob->state()) : QStringLiteral("None") },
            { "re", rJob ? errorName(rJob->error()) : QStringLiteral("NoError") },
            { "rw", acceptHow == "device" ? int(recvBuf.writes) : accepted },   // no counting device behind a path
            { "s2r", q1 },
            { "r2s", q2 },
            { "held", held ? 1 : 0 },
        };
        if (script) {
            o["ss"] = ss.state;
            o["se"] = ss.err;
        } else {
            o["ss"] = sJob ? stateName(sJob->state()) : QStringLiteral("Idle");
            o["se"] = sJob ? errorName(sJob->error()) : QStringLiteral("NoError");
        }
        o["eq"] = withEq ? int(received() == file) : -1;
        return o;
    }
};

void runBehaviour(Ctx &ctx, const QString &caseId, const QJsonObject &beh, int idx)
{
    const bool script = beh["sender"].toString("real") == "script";
    const int bs = script ? qMax(1, beh["bs"].toInt(4096)) : 4096;
    const int nReq = beh["n"].toInt();
    const qint64 size = beh.contains("size") ? qint64(beh["size"].toDouble()) : qint64(nReq) * bs;
    const int n = int((size + bs - 1) / bs);
    // content and bit positions: from the behaviour's own seed when it has one (replay files), so a
    // replayed execution is byte-identical whatever its position in the input
    const quint64 seed = beh.contains("cseed") ? quint64(beh["cseed"].toDouble())
                                               : ctx.seed * 1000003ULL + quint64(idx) * 7919ULL + 17;
    const QByteArray file = randomBytes(size, seed);
    const bool smallFile = size <= (1 << 20);

    const QString ann = beh["ann"].toString("both");
    const QString dev = beh["dev"].toString("all");
    const int devAt = dev == "all" ? 0 : beh["devAt"].toInt(1);
    ctx.reset(caseId, { { "n", n }, { "size", double(size) }, { "bs", bs }, { "sender", script ? "script" : "real" }, { "ann", ann },
                        { "dev", dev }, { "devAt", devAt }, { "accept", beh["accept"].toString("device") } });
    Exec x(ctx, file, bs, script, seed ^ 0x9e3779b97f4a7c15ULL, ann);
    x.recvBuf.mode = dev;
    x.recvBuf.at = devAt;
    x.acceptHow = beh["accept"].toString("device");
    x.destPath = beh["dest"].toString();
    if (x.acceptHow != "device") {
        prepareDestination(x.acceptHow, x.destPath, size, seed);
    }

    auto emitStep = [&](QJsonObject ev) {
        ev["o"] = x.observe(smallFile);
        ctx.emit_(ev);
    };

    const auto steps = beh["steps"].toArray();
    for (const auto &sv : steps) {
        const auto s = sv.toObject();
        const auto act = s["a"].toString();
        QJsonObject ev { { "e", act } };
        bool possible = true;
        if (act == "Offer") {
            possible = x.doOffer();
        } else if (act == "RDeliver") {
            possible = x.doRDeliver();
        } else if (act == "SDeliver") {
            possible = x.doSDeliver();
        } else if (act == "Fault") {
            ev["k"] = s["k"].toString();
            possible = x.doFault(s["k"].toString());
        } else if (act == "Inject") {
            int seq = 0;
            ev["w"] = s["w"].toString();
            ev["t"] = s["t"].toString("data");
            possible = x.doInject(s["w"].toString(), s["t"].toString("data"), seq);
            ev["seq"] = seq;
        } else if (act == "Burst") {
            const int k = s["k"].toInt();
            ev["k"] = k;
            possible = x.steady();
            if (possible) {
                ev["done"] = x.doBurst(k);
            }
        } else {
            fprintf(stderr, "ibb: unknown step %s\n", qPrintable(act));
            exit(2);
        }
        // The behaviour comes from the model; if the library did something else the step may be
        // impossible on the real channel: stop following the behaviour here (the drain below
        // still brings the exchange to rest, so the outcome is judged).
        if (!possible) {
            break;
        }
        emitStep(ev);
    }

    // drain: deliver what is in flight, fault-free, until nothing moves any more
    const qint64 guard = 4 * qint64(n) + 64;
    qint64 moves = 0;
    for (;;) {
        QCoreApplication::processEvents();
        if (!script) {
            x.collectFromSender(x.senderTakeSent());
        }
        x.collectFromReceiver();
        if (x.s2r.isEmpty() && x.r2s.isEmpty()) {
            break;
        }
        if (++moves > guard) {
            ctx.emit_({ { "e", "Runaway" }, { "moves", double(moves) } });
            break;
        }
        if (!x.s2r.isEmpty()) {
            x.doRDeliver();
            emitStep({ { "e", "RDeliver" }, { "auto", 1 } });
        } else {
            x.doSDeliver();
            emitStep({ { "e", "SDeliver" }, { "auto", 1 } });
        }
    }
    for (int i = 0; i < 3; i++) {
        QCoreApplication::sendPostedEvents();
        QCoreApplication::processEvents();
    }

    auto o = x.observe(true);
    const auto got = x.received();
    o["rlen"] = double(got.size());
    o["slen"] = double(file.size());
    o["rsha"] = QString::fromLatin1(QCryptographicHash::hash(got, QCryptographicHash::Sha1).toHex());
    o["ssha"] = QString::fromLatin1(QCryptographicHash::hash(file, QCryptographicHash::Sha1).toHex());
    o["rfin"] = x.rFinished;
    o["sfin"] = x.sFinished;
    o["rerrsig"] = jarr(x.rErrSig);
    o["serrsig"] = jarr(x.sErrSig);
    o["lost"] = x.lostReplies;
    o["offered"] = x.offered;
    ctx.emit_({ { "e", "End" }, { "o", o } });
}

// Two peers offer a file to the same receiver with the SAME session id at the same time (two
// scripted senders: the usual one and a stranger "X" or another resource "Y" of its account), their
// stanzas interleaved by a seeded schedule.  Incoming jobs are found by full JID and session id, so
// the two transfers are independent: each lane's own steps and observations must be a fault-free
// execution of spec/Ibb.tla by themselves.  The trace therefore holds the two lanes as two
// executions ("t<k>a", "t<k>b"), each with the steps of that lane only.
// Behaviour: {"peer2":"X"|"Y","bs":3,"size":7,"size2":9,"ann":"both","cseed":..,"sched":..}
void runTwin(Ctx &ctx, const QString &caseId, const QJsonObject &beh, int idx)
{
    const int bs = qMax(1, beh["bs"].toInt(4096));
    const quint64 seed = beh.contains("cseed") ? quint64(beh["cseed"].toDouble()) : ctx.seed * 1000003ULL + quint64(idx);
    const QString ann = beh["ann"].toString("both");
    const QString jid2 = beh["peer2"].toString("X") == "Y" ? kOtherResourceJid : kThirdJid;
    const qint64 sizes[2] = { qint64(beh["size"].toDouble()), qint64(beh["size2"].toDouble()) };
    const QByteArray files[2] = { randomBytes(sizes[0], seed), randomBytes(sizes[1], seed ^ 0x5555aaaa5555aaaaULL) };

    Exec l1(ctx, files[0], bs, true, seed + 1, ann);
    Exec l2(ctx, files[1], bs, true, seed + 2, ann, &l1, jid2);
    Exec *lanes[2] = { &l1, &l2 };
    QVector<QJsonObject> lines[2];
    std::mt19937_64 sched(quint64(beh["sched"].toDouble()) ^ seed);

    const qint64 guard = 8 * ((sizes[0] + sizes[1]) / bs + 2) + 64;
    for (qint64 moves = 0; moves < guard; ++moves) {
        QCoreApplication::processEvents();
        l1.collectFromReceiver();
        // what can move now: (lane, step)
        QVector<QPair<int, QString>> can;
        for (int i = 0; i < 2; i++) {
            if (!lanes[i]->offered) {
                can.append({ i, "Offer" });
            }
            if (!lanes[i]->s2r.isEmpty()) {
                can.append({ i, "RDeliver" });
            }
            if (!lanes[i]->r2s.isEmpty()) {
                can.append({ i, "SDeliver" });
            }
        }
        if (can.isEmpty()) {
            break;
        }
        const auto mv = can[int(sched() % quint64(can.size()))];
        Exec &x = *lanes[mv.first];
        if (mv.second == "Offer") {
            x.doOffer();
        } else if (mv.second == "RDeliver") {
            x.doRDeliver();
        } else {
            x.doSDeliver();
        }
        lines[mv.first].append({ { "e", mv.second }, { "o", x.observe(true) } });
    }
    for (int i = 0; i < 3; i++) {
        QCoreApplication::sendPostedEvents();
        QCoreApplication::processEvents();
    }
    for (int i = 0; i < 2; i++) {
        Exec &x = *lanes[i];
        ctx.reset(caseId + (i ? "b" : "a"), { { "n", int((sizes[i] + bs - 1) / bs) }, { "size", double(sizes[i]) }, { "bs", bs },
                                              { "sender", "script" }, { "ann", ann }, { "dev", "all" }, { "devAt", 0 }, { "lane", i + 1 }, { "jid", x.myJid } });
        for (const auto &ln : std::as_const(lines[i])) {
            ctx.emit_(ln);
        }
        auto o = x.observe(true);
        const auto got = x.recvBuf.data();
        o["rlen"] = double(got.size());
        o["slen"] = double(files[i].size());
        o["rsha"] = QString::fromLatin1(QCryptographicHash::hash(got, QCryptographicHash::Sha1).toHex());
        o["ssha"] = QString::fromLatin1(QCryptographicHash::hash(files[i], QCryptographicHash::Sha1).toHex());
        o["rfin"] = x.rFinished;
        o["sfin"] = x.sFinished;
        o["rerrsig"] = jarr(x.rErrSig);
        o["serrsig"] = jarr(x.sErrSig);
        o["lost"] = x.lostReplies;
        o["offered"] = x.offered;
        ctx.emit_({ { "e", "End" }, { "o", o } });
    }
}

}  // namespace

QXV_DRIVER(ibbtwin)
{
    auto behs = ctx.behaviours();
    int n = 0;
    for (const auto &bv : behs) {
        ++n;
        runTwin(ctx, QString("t%1").arg(n), bv.toObject(), n);
    }
    return 0;
}

QXV_DRIVER(ibb)
{
    auto behs = ctx.behaviours();
    int n = 0;
    for (const auto &bv : behs) {
        ++n;
        runBehaviour(ctx, QString("i%1").arg(n), bv.toObject(), n);
    }
    return 0;
}
