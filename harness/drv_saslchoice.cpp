// qxv saslchoice — runs the real SaslManager / Sasl2Manager::authenticate on cases of
// spec/SaslChoice.tla (property C05) with a recording SendDataInterface.
//
// input  (--in, one per line, exported by SaslChoiceGen): {"c":{"v":1|2,"offered":[..],"fastFeature":b,
//         "fastMechs":[..],"useFast":b,"userAgent":b,"disabled":[..],"preferred":"..",
//         "creds":{"pw":b,"token":"HT-..|","google":b,"wlive":b,"fb":b}}}
//         or --random=N: N seeded random cases over the whole name universe (known families, all
//         HT hash/channel-binding combinations, garbled names).
// output one line per case: {"e":"Authenticate","k":<n>,"c":{case},"o":[obs,...]} with one observation
//         per ordering of the offer (sorted, reversed, seeded shuffle, shuffle with a duplicate):
//         {"ord":"2,0,1","m":<mechanism attribute of the first element sent or "(none)">,"n":<elements sent>,
//          "el":"auth|authenticate|","err":"MechanismMismatch|...|","fast":b}
#include "qxv.h"

#include "QXmppConfiguration.h"
#include "QXmppSasl2UserAgent.h"
#include "QXmppSaslManager_p.h"
#include "QXmppSasl_p.h"

#include "XmppSocket.h"

#include <QUuid>

#include <algorithm>

using namespace QXmpp::Private;

namespace {

struct RecSocket : SendDataInterface {
    QList<QByteArray> sent;
    bool sendData(const QByteArray &d) override
    {
        sent << d;
        return true;
    }
};

const char *errName(QXmpp::AuthenticationError::Type t)
{
    using E = QXmpp::AuthenticationError;
    switch (t) {
    case E::NotAuthorized: return "NotAuthorized";
    case E::AccountDisabled: return "AccountDisabled";
    case E::CredentialsExpired: return "CredentialsExpired";
    case E::EncryptionRequired: return "EncryptionRequired";
    case E::MechanismMismatch: return "MechanismMismatch";
    case E::ProcessingError: return "ProcessingError";
    case E::RequiredTasks: return "RequiredTasks";
    }
    return "?";
}

const QStringList kHashes { "SHA-256", "SHA-384", "SHA-512", "SHA3-224", "SHA3-256", "SHA3-384", "SHA3-512" };
const QStringList kBindings { "ENDP", "UNIQ", "EXPR", "NONE" };

// the harness's own name -> token mechanism table (does not go through SaslHtMechanism::fromString)
std::optional<SaslHtMechanism> tokenMechanism(const QString &name)
{
    for (int h = 0; h < kHashes.size(); h++) {
        for (int b = 0; b < kBindings.size(); b++) {
            if (name == "HT-" + kHashes[h] + "-" + kBindings[b]) {
                return SaslHtMechanism { IanaHashAlgorithm(h), SaslHtMechanism::ChannelBindingType(b) };
            }
        }
    }
    return {};
}

QStringList strList(const QJsonValue &v)
{
    QStringList l;
    for (const auto &x : v.toArray()) {
        l << x.toString();
    }
    return l;
}

// element name and mechanism attribute of a serialized <auth/> / <authenticate/>
void scanElement(const QByteArray &xml, QString &el, QString &mech, bool &fast)
{
    int i = xml.indexOf('<');
    int j = i + 1;
    while (j < xml.size() && xml[j] != ' ' && xml[j] != '>' && xml[j] != '/') {
        j++;
    }
    el = QString::fromUtf8(xml.mid(i + 1, j - i - 1));
    int gt = xml.indexOf('>');
    int m = xml.indexOf(" mechanism=\"");
    if (m >= 0 && (gt < 0 || m < gt)) {
        int s = m + 12;
        int e = xml.indexOf('"', s);
        mech = QString::fromUtf8(xml.mid(s, e - s));
    } else {
        mech = "(no-mechanism-attribute)";
    }
    fast = xml.contains("<fast xmlns=\"urn:xmpp:fast:0\"");
}

struct Case {
    int v = 1;
    QStringList offered, fastMechs, disabled;  // sorted, without duplicates
    bool fastFeature = false, useFast = true, userAgent = true;
    QString preferred, token;
    bool pw = false, google = false, wlive = false, fb = false;
};

Case caseFromJson(const QJsonObject &c)
{
    auto norm = [](QStringList l) {
        l.removeDuplicates();
        l.sort();
        return l;
    };
    auto cr = c["creds"].toObject();
    Case k;
    k.v = c["v"].toInt();
    k.offered = norm(strList(c["offered"]));
    k.fastMechs = norm(strList(c["fastMechs"]));
    k.disabled = norm(strList(c["disabled"]));
    k.fastFeature = c["fastFeature"].toBool();
    k.useFast = c["useFast"].toBool();
    k.userAgent = c["userAgent"].toBool();
    k.preferred = c["preferred"].toString();
    k.token = cr["token"].toString();
    k.pw = cr["pw"].toBool();
    k.google = cr["google"].toBool();
    k.wlive = cr["wlive"].toBool();
    k.fb = cr["fb"].toBool();
    return k;
}

// JSON text is written by hand: QJsonObject under ASan costs more than the code under test
QByteArray jstr(const QString &s)
{
    QByteArray o = "\"";
    for (QChar ch : s) {
        ushort u = ch.unicode();
        if (u == '"' || u == '\\') {
            o += '\\';
            o += char(u);
        } else if (u < 0x20 || u > 0x7e) {
            o += "\\u" + QByteArray::number(u, 16).rightJustified(4, '0');
        } else {
            o += char(u);
        }
    }
    return o + '"';
}
QByteArray jlist(const QStringList &l)
{
    QByteArray o = "[";
    for (int i = 0; i < l.size(); i++) {
        o += (i ? "," : "") + jstr(l[i]);
    }
    return o + "]";
}
const char *jb(bool b) { return b ? "true" : "false"; }

QByteArray caseJson(const Case &k)
{
    return QByteArray("{\"v\":") + QByteArray::number(k.v) + ",\"offered\":" + jlist(k.offered) +
        ",\"fastFeature\":" + jb(k.fastFeature) + ",\"fastMechs\":" + jlist(k.fastMechs) +
        ",\"useFast\":" + jb(k.useFast) + ",\"userAgent\":" + jb(k.userAgent) + ",\"disabled\":" + jlist(k.disabled) +
        ",\"preferred\":" + jstr(k.preferred) + ",\"creds\":{\"pw\":" + jb(k.pw) + ",\"token\":" + jstr(k.token) +
        ",\"google\":" + jb(k.google) + ",\"wlive\":" + jb(k.wlive) + ",\"fb\":" + jb(k.fb) + "}}";
}

QXmppConfiguration makeConfig(const Case &k)
{
    // one configuration per case; QXmppConfiguration is implicitly shared, so start from a prototype
    static const QXmppConfiguration proto = [] {
        QXmppConfiguration p;
        p.setUser("user");
        p.setDomain("example.org");
        return p;
    }();
    static const QXmppSasl2UserAgent agent(QUuid::fromString(QStringLiteral("d4565fa7-4d72-4749-b3d3-740edbf87770")), "qxv", "harness");
    QXmppConfiguration config = proto;
    if (k.pw) {
        config.setPassword("pencil");
    }
    config.setDisabledSaslMechanisms(k.disabled);
    config.setSaslAuthMechanism(k.preferred);
    if (auto tm = tokenMechanism(k.token)) {
        config.credentialData().htToken = HtToken { *tm, "t0k3n", QDateTime() };
    }
    if (k.google) {
        config.setGoogleAccessToken("g-token");
    }
    if (k.wlive) {
        config.setWindowsLiveAccessToken("d2xpdmU=");
    }
    if (k.fb) {
        config.setFacebookAccessToken("fb-token");
        config.setFacebookAppId("fb-app");
    }
    config.setUseFastTokenAuthentication(k.useFast);
    if (k.userAgent) {
        config.setSasl2UserAgent(agent);
    } else {
        config.setSasl2UserAgent(std::nullopt);
    }
    return config;
}

QByteArray runOne(const Case &k, const QXmppConfiguration &config, const QStringList &offered, const QStringList &fastMechs, const QByteArray &ord)
{
    static QXmppLoggable loggable;
    RecSocket sock;
    QString err;
    if (k.v == 1) {
        SaslManager mgr(&sock);
        auto task = mgr.authenticate(config, offered, &loggable);
        if (task.isFinished()) {
            task.then(&loggable, [&](SaslManager::AuthResult &&r) {
                err = std::holds_alternative<SaslManager::AuthError>(r) ? errName(std::get<SaslManager::AuthError>(r).second.type) : "Success";
            });
        }
    } else {
        Sasl2Manager mgr(&sock);
        Sasl2::StreamFeature feature;
        feature.mechanisms = offered;
        if (k.fastFeature) {
            FastFeature ff;
            for (const auto &m : fastMechs) {
                ff.mechanisms.push_back(m);
            }
            feature.fast = ff;
        }
        auto task = mgr.authenticate(Sasl2::Authenticate(), config, feature, &loggable);
        if (task.isFinished()) {
            task.then(&loggable, [&](Sasl2Manager::AuthResult &&r) {
                err = std::holds_alternative<Sasl2Manager::AuthError>(r) ? errName(std::get<Sasl2Manager::AuthError>(r).second.type) : "Success";
            });
        }
    }
    QString el, mech = "(none)";
    bool fast = false;
    if (!sock.sent.isEmpty()) {
        scanElement(sock.sent.first(), el, mech, fast);
    }
    return "{\"ord\":\"" + ord + "\",\"m\":" + jstr(mech) + ",\"n\":" + QByteArray::number(sock.sent.size()) +
        ",\"el\":" + jstr(el) + ",\"err\":" + jstr(err) + ",\"fast\":" + jb(fast) + "}";
}

QByteArray ordString(const QStringList &sorted, const QStringList &order)
{
    QByteArray idx;
    for (const auto &s : order) {
        idx += (idx.isEmpty() ? "" : ",") + QByteArray::number(sorted.indexOf(s));
    }
    return idx;
}

void shuffle(Ctx &ctx, QStringList &l)
{
    for (int i = l.size() - 1; i > 0; i--) {
        int j = int(ctx.rnd(quint64(i) + 1));
        l.swapItemsAt(i, j);
    }
}

// four orderings of the offer: sorted, reversed, seeded shuffle, shuffle with one name duplicated
QByteArray runCase(Ctx &ctx, const Case &k)
{
    const QStringList &sorted = k.offered, &fsorted = k.fastMechs;
    const auto config = makeConfig(k);
    QByteArray obs;
    auto go = [&](const QStringList &o, const QStringList &f) {
        obs += (obs.isEmpty() ? "" : ",") + runOne(k, config, o, f, ordString(sorted, o) + "|" + ordString(fsorted, f));
    };
    go(sorted, fsorted);
    QStringList rev = sorted, frev = fsorted;
    std::reverse(rev.begin(), rev.end());
    std::reverse(frev.begin(), frev.end());
    go(rev, frev);
    QStringList sh = sorted, fsh = fsorted;
    shuffle(ctx, sh);
    shuffle(ctx, fsh);
    go(sh, fsh);
    QStringList du = sorted, fdu = fsorted;
    if (!du.isEmpty()) {
        du << du[int(ctx.rnd(du.size()))];
    }
    if (!fdu.isEmpty()) {
        fdu << fdu[int(ctx.rnd(fdu.size()))];
    }
    shuffle(ctx, du);
    shuffle(ctx, fdu);
    go(du, fdu);
    return obs;
}

QStringList universe()
{
    QStringList u { "X-OAUTH2", "X-MESSENGER-OAUTH2", "X-FACEBOOK-PLATFORM", "ANONYMOUS", "PLAIN", "DIGEST-MD5",
                    "SCRAM-SHA-1", "SCRAM-SHA-256", "SCRAM-SHA-512", "SCRAM-SHA3-512" };
    for (const auto &h : kHashes) {
        for (const auto &b : kBindings) {
            u << "HT-" + h + "-" + b;
        }
    }
    return u;
}

const QStringList kGarbled { "SCRAM-SHA-1-PLUS", "scram-sha-256", "SCRAM-SHA-384", "HT-SHA-256", "HT-SHA-1-NONE", "HT-SHA-256SHA-512-NONE",
                             "HT-SHA-256-NONE-", "FOO", "PLAIN ", "plain", "DIGEST-MD5-SESS", "X-OAUTH", "ANONYMOUS2", "SCRAM-" };

Case randomCase(Ctx &ctx)
{
    static const QStringList known = universe();
    auto pick = [&](const QStringList &l) { return l[int(ctx.rnd(l.size()))]; };
    auto pickName = [&]() -> QString {
        // bias towards the families that compete with each other
        switch (ctx.rnd(10)) {
        case 0: return pick(kGarbled);
        case 1:
        case 2: return pick(known.mid(10));
        default: return pick(known.mid(0, 10));
        }
    };
    auto subset = [&](int maxN) {
        QStringList l;
        int n = int(ctx.rnd(maxN + 1));
        for (int i = 0; i < n; i++) {
            l << pickName();
        }
        l.removeDuplicates();
        l.sort();
        return l;
    };
    QString token;
    if (ctx.rnd(2)) {
        token = ctx.rnd(4) ? "HT-" + pick(kHashes) + "-NONE" : pick(known.mid(10));
    }
    QStringList offered = subset(7);
    QStringList fastMechs;
    bool fastFeature = false;
    int v = ctx.rnd(2) ? 2 : 1;
    if (v == 2 && ctx.rnd(3)) {
        fastFeature = true;
        int n = int(ctx.rnd(4));
        for (int i = 0; i < n; i++) {
            fastMechs << (ctx.rnd(3) == 0 && !token.isEmpty() ? token : pick(known.mid(10)));
        }
        fastMechs.removeDuplicates();
        fastMechs.sort();
    } else if (!token.isEmpty() && ctx.rnd(3) == 0) {
        offered << token;  // a server may also list HT mechanisms in the ordinary list
        offered.removeDuplicates();
        offered.sort();
    }
    QStringList disabled;
    switch (ctx.rnd(4)) {
    case 0: break;
    case 1: disabled << "PLAIN"; break;  // the default configuration
    default: disabled = subset(3);
    }
    QString preferred;
    if (ctx.rnd(2)) {
        preferred = ctx.rnd(3) && !offered.isEmpty() ? pick(offered) : pickName();
    }
    Case k;
    k.v = v;
    k.offered = offered;
    k.fastFeature = fastFeature;
    k.fastMechs = fastMechs;
    k.useFast = ctx.rnd(5) != 0;
    k.userAgent = ctx.rnd(5) != 0;
    k.disabled = disabled;
    k.preferred = preferred;
    k.token = token;
    k.pw = ctx.rnd(4) != 0;
    k.google = ctx.rnd(4) == 0;
    k.wlive = ctx.rnd(4) == 0;
    k.fb = ctx.rnd(4) == 0;
    return k;
}

}  // namespace

QXV_DRIVER(saslchoice)
{
    ctx.reset("choice");
    int n = 0;
    auto emitCase = [&](const Case &k) {
        ctx.out.write("{\"e\":\"Authenticate\",\"k\":" + QByteArray::number(++n) + ",\"c\":" + caseJson(k) + ",\"o\":[" + runCase(ctx, k) + "]}\n");
        ++ctx.lines;
        ++ctx.cases;
    };
    for (const auto &bv : ctx.behaviours()) {
        emitCase(caseFromJson(bv.toObject()["c"].toObject()));
    }
    int nrand = ctx.optInt("random", 0);
    for (int i = 0; i < nrand; i++) {
        emitCase(randomCase(ctx));
    }
    return 0;
}
