// qxv server — drives a real QXmppServer (listening on 127.0.0.1, port chosen by the OS) along
// behaviours of spec/Server.tla (C16).
//
// Per behaviour: a fresh server with a password checker holding two accounts; an honest scripted
// raw TCP client logs in as the victim (stream, PLAIN, restart, bind "rv", session) and from then
// on only records what it receives; a second raw TCP client (the attacker, who knows only its own
// password) plays the steps of the behaviour:
//   {"a":"Open","dom":"ok|wrong"}
//   {"a":"Auth","ver":"sasl|sasl2","mech":"PLAIN|DIGEST-MD5|ANONYMOUS|X-UNKNOWN","cred":C,"b2":bool}
//   {"a":"Response","ver":..,"cred":C}       C = malformed|empty (payload shapes) or who x secret:
//        right|wrongPw|ownEmpty|ownOtherNonce|ownNoNonce (own account) otherUser|victimEmpty|victimOwnSecret|victimReplay
//        (the victim) unknownPw|unknownEmpty
//        (no such account) embedEmpty|embedBareEmpty|embedSlashEmpty (no such account, the name embeds
//        the victim's address) embedKnown (an account of the attacker's named "victim@example.org/x")
//   {"a":"Abort","ver":..}
//   {"a":"Bind","r":"ra|rv"}   {"a":"Session"}
//   {"a":"Stanza","k":"message|presence|iq","f":"absent|own|ownBare|victim|other|ownOtherRes|ownSibling|ownCase|
//        ownSlash|ownPrefix|ownDomain|ownLookalike","t":"victimBare|victimFull|domain|absent"}
//        (ownSibling: a second honest session attacker@example.org/sib is logged in for that behaviour)
//   {"a":"Reply","i":n}        the password checker (asynchronous API) finishes its n-th pending reply
// After each step the harness waits until the server's reaction is complete (see settle()) and
// logs what both raw clients received during the step, the clientConnected/Disconnected signals,
// and the checker's verdicts (ground truth of the harness about the credentials presented).
// Trace line: {"e":<a>, <args>, "att":[..], "vic":[..], "sig":[..], "chk":[..], "closed":bool}
// (record shapes: rawclient.h; spec/ServerTrace.tla judges them).
#include "qxv.h"
#include "rawclient.h"

#include "QXmppLogger.h"
#include "QXmppPasswordChecker.h"
#include "QXmppServer.h"

#include <QCryptographicHash>
#include <QPointer>
#include <QSslSocket>
#include <QTcpServer>
#include <QThread>

#include <linux/sockios.h>
#include <netinet/in.h>
#include <netinet/tcp.h>
#include <poll.h>
#include <sys/mman.h>
#include <sys/socket.h>
#include <sys/wait.h>
#include <unistd.h>
#include <sys/ioctl.h>

namespace {

const QString kDomain = QStringLiteral("example.org");
const QString kAtt = QStringLiteral("attacker"), kAttPw = QStringLiteral("apw");
const QString kNobody = QStringLiteral("nobody");                  // no such account
const QString kEmb = QStringLiteral("victim@example.org/x");         // an account (the attacker's) whose NAME embeds the victim's address
const QString kEmbPw = QStringLiteral("epw");
const QString kCase = QStringLiteral("Victim");                      // a separate account (the attacker's); differs from "victim" by case only
const QString kCasePw = QStringLiteral("cpw");
const QString kSibRes = QStringLiteral("sib");   // resource of the attacker account's second (honest) session
const QString kVic = QStringLiteral("victim"), kVicPw = QStringLiteral("vpw-secret"), kVicRes = QStringLiteral("rv");

// A password checker whose replies are finished by the harness (the checker API is asynchronous:
// QXmppPasswordReply::finished may come at any later time). `ok` is the harness's ground truth:
// were the credentials presented in the exchange that asked the right ones for `user`.
class HarnessChecker : public QXmppPasswordChecker
{
public:
    struct Pending {
        QPointer<QXmppPasswordReply> reply;
        QString op, user;
        bool ok;
    };
    QMap<QString, QString> creds;
    QList<Pending> pending;
    bool autoFinish = false;         // honest victim login: default behaviour (finishLater)
    QString scriptUser, scriptPw;    // what the attacker's script used to compute its digest response
    bool scriptForThisChallenge = true;   // ... and whether it computed it for the challenge issued on this stream
    QJsonArray log;                  // records of the current step

    // The checker is written the way the library documents ("the simplest way to write a password
    // checker is to reimplement getPassword()"): unknown user -> AuthorizationError, the secret is
    // not touched.  checkPassword()/getDigest() run the BASE-CLASS helpers of
    // src/server/QXmppPasswordChecker.cpp (they are part of what C16 relies on); only the moment
    // the reply is finished is taken over by the harness: the content of the library's reply is
    // moved into a reply the harness finishes at a `Reply` step, the library's own (with its
    // finishLater() timer) is deleted.
    QXmppPasswordReply::Error getPassword(const QXmppPasswordRequest &req, QString &password) override
    {
        if (!creds.contains(req.username())) {
            return QXmppPasswordReply::AuthorizationError;
        }
        password = creds.value(req.username());
        return QXmppPasswordReply::NoError;
    }
    static QXmppPasswordReply *takeOver(QXmppPasswordReply *lib)
    {
        auto *reply = new QXmppPasswordReply;
        reply->setError(lib->error());
        reply->setDigest(lib->digest());
        reply->setPassword(lib->password());
        delete lib;   // cancels its singleShot(0) finish
        return reply;
    }
    QXmppPasswordReply *checkPassword(const QXmppPasswordRequest &req) override
    {
        auto *lib = QXmppPasswordChecker::checkPassword(req);
        if (autoFinish) {
            return lib;
        }
        // ground truth, independent of the library: is this exactly that user's password
        bool ok = creds.contains(req.username()) && creds.value(req.username()) == req.password();
        auto *reply = takeOver(lib);
        ask(reply, "check", req.username(), ok);
        return reply;
    }
    QXmppPasswordReply *getDigest(const QXmppPasswordRequest &req) override
    {
        auto *lib = QXmppPasswordChecker::getDigest(req);
        if (autoFinish) {
            return lib;
        }
        // the digest proves the password only if the script computed its response from the right one
        // ... and for THIS challenge: a response recorded elsewhere or made for a nonce of the client's choosing
        // presents nothing on this stream
        bool ok = creds.contains(req.username()) && req.username() == scriptUser && creds.value(req.username()) == scriptPw
            && scriptForThisChallenge;
        auto *reply = takeOver(lib);
        ask(reply, "digest", req.username(), ok);
        return reply;
    }
    bool hasGetPassword() const override { return true; }

    void ask(QXmppPasswordReply *reply, const QString &op, const QString &user, bool ok)
    {
        pending.append({ reply, op, user, ok });
        log.append(QJsonObject { { "ev", "ask" }, { "op", op }, { "user", user }, { "ok", ok } });
    }
    // returns false if there is no such pending reply
    bool finish(int i)
    {
        if (i < 0 || i >= pending.size()) {
            return false;
        }
        auto p = pending.takeAt(i);
        bool delivered = !p.reply.isNull();
        log.append(QJsonObject { { "ev", delivered ? "fin" : "gone" }, { "op", p.op }, { "user", p.user }, { "ok", p.ok } });
        if (delivered) {
            p.reply->finish();
        }
        return true;
    }
};

struct World {
    QXmppLogger logger;
    HarnessChecker checker;
    QXmppServer server;
    RawClient vic, att;
    RawClient sib;         // optional second, honest session of the attacker's account (resource "sib")
    bool haveSib = false;
    int received = 0;      // ReceivedMessage records of the server (one per parsed read buffer)
    int logRecords = 0;    // all logger records
    QJsonArray sig;        // signals of the current step
    quint16 port = 0;

    World()
    {
        logger.setLoggingType(QXmppLogger::SignalLogging);
        QObject::connect(&logger, &QXmppLogger::message, &logger, [this](QXmppLogger::MessageType t, const QString &) {
            ++logRecords;
            if (t == QXmppLogger::ReceivedMessage) {
                ++received;
            }
        });
        checker.creds[kAtt] = kAttPw;
        checker.creds[kVic] = kVicPw;
        checker.creds[kEmb] = kEmbPw;
        checker.creds[kCase] = kCasePw;
        server.setDomain(kDomain);
        server.setLogger(&logger);
        server.setPasswordChecker(&checker);
        QObject::connect(&server, &QXmppServer::clientConnected, &server, [this](const QString &jid) {
            sig.append(QJsonObject { { "s", "connected" }, { "j", qxvJid(jid) } });
        });
        QObject::connect(&server, &QXmppServer::clientDisconnected, &server, [this](const QString &jid) {
            sig.append(QJsonObject { { "s", "disconnected" }, { "j", qxvJid(jid) } });
        });
    }

    // Setting up the listening socket is harness business, not an observation: when the machine
    // is short of ephemeral ports (many short-lived loopback connections in TIME_WAIT, also from
    // other processes) listenForClients fails; wait for ports to come back rather than give up.
    bool listen()
    {
        bool ok = false;
        for (int attempt = 0; attempt < 600 && !ok; attempt++) {
            ok = server.listenForClients(QHostAddress::LocalHost, 0);
            if (!ok) {
                QThread::msleep(100);
            }
        }
        if (!ok) {
            return false;
        }
        auto *tcp = server.findChild<QTcpServer *>();
        port = tcp ? tcp->serverPort() : 0;
        return port != 0;
    }

    qint64 activity() const { return att.rxTotal + vic.rxTotal + sib.rxTotal + logRecords + sig.size() + (att.closed ? 1 : 0) + (vic.closed ? 1 : 0); }

    // A socket is quiet when nothing is in flight in either direction: Qt's buffers are empty,
    // the kernel's send queue has been delivered and acknowledged (SIOCOUTQ == 0) and nothing
    // (data or FIN) is waiting to be read (poll reports no POLLIN/POLLRDHUP).
    // Kernel tuning only (no effect on what is sent): Nagle off and delayed ACKs flushed, so that
    // "acknowledged" is reached at once instead of after the 40 ms delayed-ACK timer.
    static bool sockQuiet(QAbstractSocket *s)
    {
        if (s->state() != QAbstractSocket::UnconnectedState && s->socketDescriptor() >= 0) {
            int one = 1, fd = int(s->socketDescriptor());
            setsockopt(fd, IPPROTO_TCP, TCP_NODELAY, &one, sizeof(one));
            setsockopt(fd, IPPROTO_TCP, TCP_QUICKACK, &one, sizeof(one));
        }
        if (s->bytesToWrite() > 0 || s->bytesAvailable() > 0) {
            return false;
        }
        if (s->state() == QAbstractSocket::UnconnectedState || s->socketDescriptor() < 0) {
            return true;
        }
        int fd = int(s->socketDescriptor()), outq = 0;
        if (ioctl(fd, SIOCOUTQ, &outq) == 0 && outq != 0) {
            return false;
        }
        pollfd p { fd, POLLIN | POLLRDHUP, 0 };
        return poll(&p, 1, 0) == 0;
    }

    // Quiescence: every socket of the world (server side and client side) is quiet and nothing
    // observable changed in three consecutive rounds of the event loop (posted events, queued
    // calls and deferred deletions are delivered in every round). The time bound is a hang
    // detector only.
    bool settle()
    {
        QElapsedTimer t;
        t.start();
        int idle = 0;
        qint64 last = activity();
        while (idle < 3) {
            if (t.elapsed() > 3000) {
                return false;
            }
            QCoreApplication::sendPostedEvents();
            QCoreApplication::sendPostedEvents(nullptr, QEvent::DeferredDelete);
            QCoreApplication::processEvents(QEventLoop::AllEvents);
            bool q1 = sockQuiet(&att.sock), q2 = sockQuiet(&vic.sock) && sockQuiet(&sib.sock);
            bool quiet = q1 && q2;
            const auto socks = server.findChildren<QSslSocket *>();
            for (auto *s : socks) {
                bool q = sockQuiet(s);
                quiet = quiet && q;
            }
            QJsonArray tmp;
            bool whole = att.project(tmp) && vic.project(tmp) && sib.project(tmp);
            qint64 a = activity();
            idle = (quiet && whole && a == last) ? idle + 1 : 0;
            last = a;
        }
        return true;
    }

    // write one element on c, wait until the server has consumed it (ReceivedMessage record),
    // then until its reaction is complete
    bool sendAndSettle(RawClient &c, const QByteArray &data)
    {
        int r0 = received;
        c.send(data);
        bool ok = qxvSpin([&] { return received > r0 || !c.isOpen(); }, 3000);
        return settle() && ok;
    }
};

QByteArray b64(const QByteArray &d) { return d.toBase64(); }

QByteArray streamOpen(const QString &to)
{
    return QStringLiteral("<?xml version='1.0'?><stream:stream to='%1' version='1.0' xmlns='jabber:client' "
                          "xmlns:stream='http://etherx.jabber.org/streams'>")
        .arg(to)
        .toUtf8();
}

bool hasKind(const QJsonArray &recs, const QString &k)
{
    for (const auto &v : recs) {
        if (v.toObject()["k"].toString() == k) {
            return true;
        }
    }
    return false;
}

// honest login of the victim; every wait is for the element the protocol says comes next
bool loginHonest(World &w, RawClient &v, const QString &user, const QString &pw, const QString &res)
{
    w.checker.autoFinish = true;
    QJsonArray seen;
    auto waitFor = [&](const QString &k) {
        return qxvSpin([&] {
            QJsonArray all;
            return v.project(all) && hasKind(all, k) && (seen = all, true);
        });
    };
    bool ok = v.connectTo(w.port);
    v.send(streamOpen(kDomain));
    ok = ok && waitFor("features");
    v.send("<auth xmlns='urn:ietf:params:xml:ns:xmpp-sasl' mechanism='PLAIN'>" + b64(QByteArray(1, '\0') + user.toUtf8() + QByteArray(1, '\0') + pw.toUtf8()) + "</auth>");
    ok = ok && waitFor("success");
    int before = seen.size();
    v.send(streamOpen(kDomain));
    ok = ok && qxvSpin([&] { QJsonArray all; return v.project(all) && all.size() >= before + 2; });
    v.send("<iq type='set' id='vb'><bind xmlns='urn:ietf:params:xml:ns:xmpp-bind'><resource>" + res.toUtf8() + "</resource></bind></iq>");
    ok = ok && waitFor("iq");
    before = seen.size();
    v.send("<iq type='set' id='vs'><session xmlns='urn:ietf:params:xml:ns:xmpp-session'/></iq>");
    ok = ok && qxvSpin([&] { QJsonArray all; return v.project(all) && all.size() >= before + 1; });
    v.send("<presence/>");
    ok = w.settle() && ok;
    w.checker.autoFinish = false;
    v.takeNew();
    w.sig = QJsonArray();
    w.checker.log = QJsonArray();
    return ok && v.isOpen();
}

struct Script {
    World &w;
    QString res;   // resource the server last reported to the attacker (bind result / bind 2), else "ra"
    int idx = 0;

    // credential classes: WHO is named x WHAT secret the payload / digest response is computed with
    void creds(const QString &c, QString &user, QString &pw) const
    {
        static const QMap<QString, QPair<QString, QString>> table {
            { "right", { kAtt, kAttPw } },                       // own account, its password
            { "wrongPw", { kAtt, QStringLiteral("bad") } },      // own account, wrong password
            { "ownEmpty", { kAtt, QString() } },                 // own account, empty password
            { "otherUser", { kVic, kAttPw } },                   // the victim, the attacker's password
            { "victimEmpty", { kVic, QString() } },              // the victim, empty password
            // the victim's NAME; a DIGEST-MD5 response is computed from the attacker's own secret hash
            // MD5(attacker:realm:attacker-password) (see digestPayload); PLAIN: same payload as otherUser
            { "victimOwnSecret", { kVic, kAttPw } },
            // DIGEST-MD5 responses that are well-formed but NOT for the challenge issued on this stream
            // (see digestPayload): the victim's, as recorded from an honest exchange elsewhere -- the
            // harness computes it from the victim's real secret for a nonce of its own; the attacker's
            // own with the right secret for another nonce; the same without a nonce field.
            // In a PLAIN payload they degrade to otherUser / wrongPw (see plainPayload).
            { "victimReplay", { kVic, kVicPw } },
            { "ownOtherNonce", { kAtt, kAttPw } },
            { "ownNoNonce", { kAtt, kAttPw } },
            { "unknownPw", { kNobody, kAttPw } },                // no such account, some password
            { "unknownEmpty", { kNobody, QString() } },          // no such account, empty password
            // no such account; the name embeds the victim's address (the name becomes the localpart of d->jid)
            { "embedEmpty", { kVic + "@" + kDomain + "/y", QString() } },
            { "embedBareEmpty", { kVic + "@" + kDomain, QString() } },
            { "embedSlashEmpty", { kVic + "/y", QString() } },
            // an account that exists under such a name and belongs to the attacker
            { "embedKnown", { kEmb, kEmbPw } },
            // an account of the attacker's own whose name is the victim's in another letter case:
            // "Victim" and "victim" are separate accounts with separate passwords for the checker
            { "caseKnown", { kCase, kCasePw } },
        };
        const auto e = table.value(c, { kAtt, kAttPw });
        user = e.first;
        pw = e.second;
    }
    QByteArray plainPayload(const QString &c) const
    {
        if (c == "empty") {
            return {};
        }
        if (c == "malformed") {
            return b64("garbage");
        }
        QString u, p;
        creds(c == "victimReplay" ? QStringLiteral("otherUser") : (c == "ownOtherNonce" || c == "ownNoNonce") ? QStringLiteral("wrongPw") : c, u, p);
        return b64(QByteArray(1, '\0') + u.toUtf8() + QByteArray(1, '\0') + p.toUtf8());
    }
    // RFC 2831 response to the server's challenge, computed by hand
    QByteArray digestPayload(const QString &c, const QByteArray &challenge) const
    {
        if (c == "empty") {
            return {};
        }
        if (c == "malformed") {
            return b64("username=\"x\",garbage");
        }
        QString u, p;
        creds(c, u, p);
        w.checker.scriptUser = u;
        w.checker.scriptPw = p;
        // is the response computed for the challenge the server issued on this stream
        const bool otherNonce = c == "victimReplay" || c == "ownOtherNonce", noNonce = c == "ownNoNonce";
        w.checker.scriptForThisChallenge = !otherNonce && !noNonce;
        QByteArray nonce;
        static const QRegularExpression re(QStringLiteral("nonce=\"([^\"]*)\""));
        auto m = re.match(QString::fromLatin1(challenge));
        if (m.hasMatch()) {
            nonce = m.captured(1).toLatin1();
        }
        if (otherNonce) {
            nonce = "bm9uY2Ugb2YgYW5vdGhlciBzdHJlYW0=";   // the nonce of another stream's challenge
        } else if (noNonce) {
            nonce.clear();
        }
        const QByteArray cnonce = "c0ffee", nc = "00000001", uri = "xmpp/" + kDomain.toUtf8(), realm = kDomain.toUtf8();
        auto md5 = [](const QByteArray &d) { return QCryptographicHash::hash(d, QCryptographicHash::Md5); };
        // whose name goes into the secret hash H(user:realm:password): normally the user named in the response
        const QString hu = c == "victimOwnSecret" ? kAtt : u;
        QByteArray a1 = md5(hu.toUtf8() + ":" + realm + ":" + p.toUtf8()) + ":" + nonce + ":" + cnonce;
        QByteArray a2 = "AUTHENTICATE:" + uri;
        QByteArray resp = md5(md5(a1).toHex() + ":" + nonce + ":" + nc + ":" + cnonce + ":auth:" + md5(a2).toHex()).toHex();
        QByteArray msg = "username=\"" + u.toUtf8() + "\",realm=\"" + realm + (noNonce ? QByteArray() : "\",nonce=\"" + nonce) + "\",cnonce=\"" + cnonce +
            "\",nc=" + nc + ",qop=auth,digest-uri=\"" + uri + "\",response=" + resp + ",charset=utf-8";
        return b64(msg);
    }

    QString jidOf(const QString &cls) const
    {
        const QString bare = kAtt + "@" + kDomain;
        const QString r = res.isEmpty() ? QStringLiteral("ra") : res;
        if (cls == "own") {
            return bare + "/" + r;
        }
        // addresses of the own account that are NOT this connection's address, and near-misses of it
        if (cls == "ownOtherRes") {
            return bare + "/zz";                 // a resource nobody ever bound
        }
        if (cls == "ownSibling") {
            return bare + "/" + kSibRes;         // the resource of another live session of the account
        }
        if (cls == "ownCase") {
            return bare + "/" + (r.toUpper() != r ? r.toUpper() : r.toLower());   // resources are case-sensitive
        }
        if (cls == "ownSlash") {
            return bare + "/";                   // trailing slash, empty resource
        }
        if (cls == "ownPrefix") {
            return bare + "/" + r + "2";         // own full JID is a proper prefix
        }
        if (cls == "ownDomain") {
            return kDomain;
        }
        if (cls == "ownLookalike") {
            return bare + ".evil.net/" + r;      // own localpart at a domain that starts like the served one
        }
        if (cls == "ownBare") {
            return kAtt + "@" + kDomain;
        }
        if (cls == "victim" || cls == "victimFull") {
            return kVic + "@" + kDomain + "/" + kVicRes;
        }
        if (cls == "victimBare") {
            return kVic + "@" + kDomain;
        }
        if (cls == "other") {
            return QStringLiteral("mallory@elsewhere.org/x");
        }
        if (cls == "domain") {
            return kDomain;
        }
        return {};
    }

    // bytes for one step; empty = the step is a checker reply (no bytes)
    QByteArray concretise(const QJsonObject &s)
    {
        const QString a = s["a"].toString();
        const QString id = QStringLiteral("q%1").arg(idx);
        const bool v2 = s["ver"].toString() == "sasl2";
        const QByteArray ns = v2 ? "urn:xmpp:sasl:2" : "urn:ietf:params:xml:ns:xmpp-sasl";
        if (a == "Open") {
            return streamOpen(s["dom"].toString() == "ok" ? kDomain : QStringLiteral("elsewhere.org"));
        }
        if (a == "Auth") {
            const QString mech = s["mech"].toString();
            QByteArray payload = mech == "PLAIN" ? plainPayload(s["cred"].toString()) : QByteArray();
            if (!v2) {
                return "<auth xmlns='" + ns + "' mechanism='" + mech.toUtf8() + "'>" + payload + "</auth>";
            }
            QByteArray x = "<authenticate xmlns='" + ns + "' mechanism='" + mech.toUtf8() + "'>";
            if (!payload.isEmpty()) {
                x += "<initial-response>" + payload + "</initial-response>";
            }
            if (s["b2"].toBool()) {
                x += "<bind xmlns='urn:xmpp:bind:0'><tag>t</tag></bind>";
            }
            return x + "</authenticate>";
        }
        if (a == "Response") {
            const QString c = s["cred"].toString();
            QByteArray payload = w.att.lastChallenge.contains("nonce=") ? digestPayload(c, w.att.lastChallenge) : plainPayload(c);
            return "<response xmlns='" + ns + "'>" + payload + "</response>";
        }
        if (a == "Abort") {
            return "<abort xmlns='" + ns + "'/>";
        }
        if (a == "Bind") {
            return "<iq type='set' id='" + id.toUtf8() + "'><bind xmlns='urn:ietf:params:xml:ns:xmpp-bind'><resource>" +
                s["r"].toString().toUtf8() + "</resource></bind></iq>";
        }
        if (a == "Session") {
            return "<iq type='set' id='" + id.toUtf8() + "'><session xmlns='urn:ietf:params:xml:ns:xmpp-session'/></iq>";
        }
        if (a == "Stanza") {
            const QString k = s["k"].toString(), f = jidOf(s["f"].toString()), t = jidOf(s["t"].toString());
            QByteArray x = "<" + k.toUtf8() + " id='" + id.toUtf8() + "'";
            if (k == "iq") {
                x += " type='get'";
            } else if (k == "message") {
                x += " type='chat'";
            }
            if (!f.isEmpty()) {
                x += " from='" + f.toUtf8() + "'";
            }
            if (!t.isEmpty()) {
                x += " to='" + t.toUtf8() + "'";
            }
            x += ">";
            x += k == "iq" ? "<ping xmlns='urn:xmpp:ping'/>" : (k == "message" ? "<body>hi</body>" : "<status>s</status>");
            return x + "</" + k.toUtf8() + ">";
        }
        return {};
    }
};

// returns false on a harness failure (hang detector fired)
bool runBehaviour(Ctx &ctx, const QString &caseId, const QJsonArray &steps)
{
    World w;
    if (!w.listen()) {
        fprintf(stderr, "server: cannot listen on loopback\n");
        return false;
    }
    if (!loginHonest(w, w.vic, kVic, kVicPw, kVicRes)) {
        fprintf(stderr, "server: victim login failed, unparsed tail: %s\n", qPrintable(w.vic.tail));
        return false;
    }
    for (const auto &sv : steps) {
        if (sv.toObject()["f"].toString() == "ownSibling") {
            w.haveSib = true;
        }
    }
    if (w.haveSib && !loginHonest(w, w.sib, kAtt, kAttPw, kSibRes)) {
        fprintf(stderr, "server: sibling login failed, unparsed tail: %s\n", qPrintable(w.sib.tail));
        return false;
    }
    if (!w.att.connectTo(w.port) || !w.settle()) {
        fprintf(stderr, "server: attacker cannot connect\n");
        return false;
    }
    ctx.reset(caseId);
    ctx.out.flush();
    Script sc { w, {} };
    bool fine = true;
    for (const auto &sv : steps) {
        const auto s = sv.toObject();
        const QString a = s["a"].toString();
        ++sc.idx;
        QJsonObject ev = s;
        ev.remove("a");
        ev["e"] = a;
        bool settled = true;
        if (a == "Reply") {
            // the behaviour comes from the model: if the implementation asked the checker fewer
            // times than the model expects, the step is impossible here: end the execution
            if (!w.checker.finish(s["i"].toInt() - 1)) {
                break;
            }
            settled = w.settle();
        } else {
            if (!w.att.isOpen()) {
                break;  // the server closed the connection (possibly where the model would not)
            }
            QByteArray bytes = sc.concretise(s);
            if (bytes.isEmpty()) {
                fprintf(stderr, "server: unknown step %s\n", qPrintable(a));
                exit(2);
            }
            if (ctx.optInt("raw", 1)) {
                ev["raw"] = QString::fromUtf8(bytes);   // the concrete bytes (replay files); --raw=0 for bulk runs
            }
            settled = w.sendAndSettle(w.att, bytes);
        }
        bool c1 = true, c2 = true;
        QJsonArray att = w.att.takeNew(&c1), vic = w.vic.takeNew(&c2);
        // remember the address the server says this connection has (concretises from="own")
        if (w.att.lastJid.contains('/')) {
            sc.res = w.att.lastJid.mid(w.att.lastJid.indexOf('/') + 1);
        }
        ev["att"] = att;
        ev["vic"] = vic;
        if (w.haveSib) {
            ev["sib"] = w.sib.takeNew();   // informational: what the account's other session received
        }
        ev["sig"] = w.sig;
        ev["chk"] = w.checker.log;
        ev["closed"] = !w.att.isOpen();
        w.sig = QJsonArray();
        w.checker.log = QJsonArray();
        if (!settled || !c1 || !c2) {
            ev["timeout"] = true;
            fine = false;
        }
        ctx.emit_(ev);
        ctx.out.flush();  // a crash in a later step must not lose this line
        if (!fine) {
            break;
        }
    }
    // tear down: clients first, then the server (its destructor closes the listening socket).
    // The clients close with RST (SO_LINGER 0): no TIME_WAIT entry is left behind, which at several
    // hundred connections per second would exhaust the ephemeral port range within a minute.
    for (auto *c : { &w.att, &w.vic, &w.sib }) {
        if (c->sock.socketDescriptor() >= 0) {
            linger lg { 1, 0 };
            setsockopt(int(c->sock.socketDescriptor()), SOL_SOCKET, SO_LINGER, &lg, sizeof(lg));
        }
        c->sock.abort();
    }
    w.settle();
    return fine;
}

}  // namespace

QXV_DRIVER(server)
{
    // Behaviours run in forked children (batches): a crash of the implementation (the behaviours
    // come from the model and include sequences no honest client produces) ends that execution
    // only; the parent records it as {"e":"Crash"} and starts a new child at the next behaviour.
    // --fork=0 disables (debugging).
    const auto behs = ctx.behaviours();
    const bool useFork = ctx.optInt("fork", 1) != 0;
    const int batch = ctx.optInt("batch", 100);
    const int base = ctx.optInt("base", 0);   // case ids are s<base+1>, s<base+2>, ... (parallel slices)
    struct Shared {
        int cur;       // index of the behaviour being executed
        int hung;
        long lines;
    };
    auto *sh = static_cast<Shared *>(mmap(nullptr, sizeof(Shared), PROT_READ | PROT_WRITE, MAP_SHARED | MAP_ANONYMOUS, -1, 0));
    if (sh == MAP_FAILED) {
        fprintf(stderr, "server: mmap failed\n");
        return 2;
    }
    *sh = Shared { 0, 0, 0 };
    auto runRange = [&](int from, int to) {
        for (int i = from; i < to; i++) {
            sh->cur = i;
            if (!runBehaviour(ctx, QStringLiteral("s%1").arg(base + i + 1), behs[i].toObject()["steps"].toArray())) {
                ++sh->hung;
            }
            ctx.out.flush();
        }
    };
    int crashed = 0;
    if (!useFork) {
        runRange(0, behs.size());
    }
    for (int next = 0; useFork && next < behs.size();) {
        const int to = std::min<int>(next + batch, behs.size());
        ctx.out.flush();
        fflush(nullptr);
        pid_t pid = fork();
        if (pid < 0) {
            fprintf(stderr, "server: fork failed\n");
            return 2;
        }
        if (pid == 0) {
            qint64 l0 = ctx.lines;
            runRange(next, to);
            sh->lines += ctx.lines - l0;
            ctx.out.flush();
            fflush(nullptr);
            _exit(0);
        }
        int st = 0;
        while (waitpid(pid, &st, 0) < 0 && errno == EINTR) { }
        if (WIFEXITED(st) && WEXITSTATUS(st) == 0) {
            next = to;
            continue;
        }
        ++crashed;
        ctx.out.seek(ctx.out.size());
        ctx.emit_(QJsonObject { { "e", "Crash" }, { "case", QStringLiteral("s%1").arg(base + sh->cur + 1) },
                                { "how", WIFSIGNALED(st) ? QStringLiteral("signal %1").arg(WTERMSIG(st)) : QStringLiteral("exit %1").arg(WEXITSTATUS(st)) } });
        next = sh->cur + 1;
    }
    ctx.cases = behs.size();
    ctx.lines += sh->lines;
    if (crashed) {
        fprintf(stderr, "server: %d executions ended by a crash of the implementation\n", crashed);
    }
    if (sh->hung) {
        fprintf(stderr, "server: %d executions hit the hang detector\n", sh->hung);
        return 4;
    }
    return 0;
}
