// Session moves for the in-memory TestClient (used by drv_blocking.cpp and drv_mam.cpp).
//
// fixture.h offers fakeSession()/emitConnected()/emitDisconnected(), which only raise the two signals.  The
// managers driven here depend on what QXmppOutgoingClient does around them (pending IQ requests are cancelled
// when a session ends without the possibility of resumption or when a new stream replaces it; nothing can be
// written while there is no connection), so this helper goes through the real code as far as that is possible
// without a server:
//   * the client socket is one end of a socketpair (nobody reads the other end), so that writing succeeds;
//   * the session ENDS by aborting that socket: QSslSocket::disconnected -> XmppSocket::disconnected ->
//     QXmppOutgoingClient::_q_socketDisconnected -> closeSession() (the real one: StreamAckManager::onSessionClosed,
//     OutgoingIqManager::onSessionClosed, Q_EMIT disconnected).  Whether the session can be resumed is the real
//     C2sStreamManager state: it is set through C2sStreamManager::onBind2Bound (<enabled resume='true'/>) when the
//     session starts and cleared through C2sStreamManager::onStreamClosed (what a received </stream:stream> does);
//   * the session BEGINS with the body of QXmppOutgoingClient::openSession() (private; reproduced line by line
//     from the public members of QXmppOutgoingClientPrivate), after C2sStreamManager was told the outcome through
//     its public entry points (onStreamStart + onBind2Bound for a new stream, onSasl2Success{resumed} for a
//     resumed one).  The carbon / CSI managers are not notified (they would write their own requests).
// Every step the harness acknowledges what the client wrote (<a h='n'/>), so that XEP-0198 has nothing to resend.
#pragma once

#include "fixture.h"

#include "QXmppSasl_p.h"
#include "QXmppStreamManagement_p.h"

#include <sys/socket.h>
#include <unistd.h>

struct QxvSession {
    TestClient &c;
    int peerFd = -1;
    quint32 smCount = 0;  // stanzas the client wrote on the current stream-management session
    bool up = false;

    explicit QxvSession(TestClient &client) : c(client) { }
    ~QxvSession()
    {
        if (peerFd >= 0) {
            ::close(peerFd);
        }
    }

    bool socketConnected() const { return c.stream()->socket()->state() == QAbstractSocket::ConnectedState; }

    bool attachSocket()
    {
        if (peerFd >= 0) {
            ::close(peerFd);
            peerFd = -1;
        }
        int fds[2];
        if (::socketpair(AF_UNIX, SOCK_STREAM, 0, fds) != 0) {
            return false;
        }
        peerFd = fds[1];
        return c.stream()->socket()->setSocketDescriptor(fds[0], QAbstractSocket::ConnectedState) && socketConnected();
    }

    // resumed: the previous session (ended resumable) continues; else a new stream with stream management
    bool open(bool resumed)
    {
        using namespace QXmpp::Private;
        if (up || !attachSocket()) {
            return false;
        }
        auto *sp = c.streamPrivate();
        auto &sm = c.stream()->c2sStreamManager();
        sp->isAuthenticated = true;
        if (resumed) {
            Sasl2::Success success;
            success.smResumed = SmResumed { smCount, QStringLiteral("sm-1") };
            sm.onSasl2Success(success);
        } else {
            smCount = 0;
            sm.onStreamStart();
            Bind2Bound bound;
            bound.smEnabled = SmEnabled { true, QStringLiteral("sm-1"), 0, QString() };
            sm.onBind2Bound(bound);
        }
        // QXmppOutgoingClient::openSession()
        sp->sessionStarted = true;
        SessionBegin session { sm.enabled(), sm.streamResumed(), false, false, AuthenticationMethod::Sasl2 };
        sp->iqManager.onSessionOpened(session);
        sm.onSessionOpened(session);
        Q_EMIT c.stream()->connected(session);
        QCoreApplication::processEvents();
        up = true;
        return true;
    }

    // the connection is lost; resumable = the server had granted resumption and did not close the stream
    void close(bool resumable)
    {
        if (!resumable) {
            c.stream()->c2sStreamManager().onStreamClosed();
        }
        c.stream()->socket()->abort();  // -> _q_socketDisconnected -> closeSession()
        QCoreApplication::processEvents();
        up = false;
    }

    // the server acknowledges everything written so far (n = stanzas written during the step)
    void acknowledge(int n)
    {
        smCount += quint32(n);
        if (up && socketConnected()) {
            c.inject(QStringLiteral("<a xmlns='urn:xmpp:sm:3' h='%1'/>").arg(smCount));
            c.takeSent();
        }
    }
};
