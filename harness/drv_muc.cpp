// qxv muc — drives a real QXmppClient + QXmppDiscoveryManager + QXmppMucManager with two managed
// rooms (r1, r2) along behaviours of spec/Muc.tla (extension `muc`).
//
// The client is the in-memory TestClient of fixture.h.  Its socket is given one end of a socketpair
// so that QXmppClient::sendPacket() reports success (QXmppMucRoom::requestPermissions stops after
// the first request otherwise); nothing is ever read from or answered on that socket.
// Everything the MUC service "sends" is injected through the real receive path
// (QXmppOutgoingClient::handlePacketReceived); the session events are the two signals
// QXmppOutgoingClient emits in openSession()/closeSession() (connected / disconnected), which is
// all QXmppMucRoom listens to (QXmppClient::disconnected).
//
// Behaviour: {"steps":[{"a":"SetNick","r":"r1","n":"n1"},{"a":"Join","r":"r1"},
//                      {"a":"PresAv","src":"r1","n":"n1","c":"self","it":"mod"}, ...]}
// Trace line per step (see spec/MucTrace.tla): the event with its arguments, "e" = its kind, and
//   o = {conn, msig:[..], sent:[..], rooms:{r1:{joined,nick,parts:[..],subj,name,acts,sig:[..]}, r2:{..}}}
// read from the public getters after the step, from the signals of the rooms / the manager during
// the step (emission order) and from the stanzas the client wrote during the step.
#include "fixture.h"
#include "qxv.h"

#include "QXmppDataForm.h"
#include "QXmppDiscoveryManager.h"
#include "QXmppMessage.h"
#include "QXmppMucManager.h"
#include "QXmppUtils.h"

#include <memory>

#include <sys/socket.h>
#include <unistd.h>

namespace {

const QString kOwnFull = QStringLiteral("me@example.org/dev1");
const QStringList kManaged { "r1", "r2" };

QString bareOf(const QString &id)
{
    if (id == "lk") {
        return QStringLiteral("r1@conference.example.org.evil.example");  // r1's JID is a prefix
    }
    return id + QStringLiteral("@conference.example.org");
}
QString idOfBare(const QString &bare)
{
    for (const auto &id : { QStringLiteral("r1"), QStringLiteral("r2"), QStringLiteral("rx"), QStringLiteral("lk") }) {
        if (bareOf(id) == bare) {
            return id;
        }
    }
    return "?" + bare;
}
QString fromJid(const QString &src, const QString &n) { return n == "-" ? bareOf(src) : bareOf(src) + "/" + n; }
QString userJid(const QString &u) { return u + QStringLiteral("@example.org"); }
QString idOfUser(const QString &jid) { return jid.endsWith("@example.org") ? jid.left(jid.indexOf('@')) : "?" + jid; }

struct ItemCls {
    const char *name, *aff, *role;
};
const ItemCls kItems[] = {
    { "plain", "none", "participant" }, { "member", "member", "participant" }, { "mod", "none", "moderator" },
    { "admin", "admin", "participant" }, { "owner", "owner", "participant" }, { "ownermod", "owner", "moderator" },
};

struct RoomRig {
    QString id;
    QXmppMucRoom *room = nullptr;
    QStringList sig;
};

struct Env {
    std::unique_ptr<TestClient> c;
    QXmppMucManager *mgr = nullptr;
    int peerFd = -1;
    QVector<RoomRig *> rooms;
    QStringList msig;
    QMap<QString, QString> permId;  // "r1:owner" -> id of the latest request
    int n = 0;
    int smCount = 0;  // stanzas written on this session (XEP-0198 outbound counter of the fake session)

    ~Env()
    {
        c.reset();
        qDeleteAll(rooms);
        if (peerFd >= 0) {
            ::close(peerFd);
        }
    }

    QString nickOf(const RoomRig &r, const QString &occupantJid) const
    {
        const auto bare = r.room->jid();
        if (occupantJid == bare) {
            return "-";
        }
        if (occupantJid.startsWith(bare + "/")) {
            return occupantJid.mid(bare.size() + 1);
        }
        return "?" + occupantJid;
    }

    void start()
    {
        TestClient::resetIdCounter();
        c = std::make_unique<TestClient>(TestClient::NoExtensions, kOwnFull);
        c->addExtension(new QXmppDiscoveryManager);
        mgr = new QXmppMucManager;
        c->addExtension(mgr);
        QObject::connect(mgr, &QXmppMucManager::invitationReceived, mgr, [this](const QString &roomJid, const QString &, const QString &) {
            msig << "invite:" + idOfBare(roomJid);
        });
        for (const auto &id : kManaged) {
            auto *rr = new RoomRig;
            rr->id = id;
            rr->room = mgr->addRoom(bareOf(id));
            rooms << rr;
            auto *q = rr->room;
            QObject::connect(q, &QXmppMucRoom::joined, q, [rr] { rr->sig << "joined"; });
            QObject::connect(q, &QXmppMucRoom::left, q, [rr] { rr->sig << "left"; });
            QObject::connect(q, &QXmppMucRoom::kicked, q, [rr](const QString &, const QString &) { rr->sig << "kicked"; });
            QObject::connect(q, &QXmppMucRoom::error, q, [rr](const QXmppStanza::Error &) { rr->sig << "error"; });
            QObject::connect(q, &QXmppMucRoom::participantAdded, q, [this, rr](const QString &j) { rr->sig << "added:" + nickOf(*rr, j); });
            QObject::connect(q, &QXmppMucRoom::participantChanged, q, [this, rr](const QString &j) { rr->sig << "changed:" + nickOf(*rr, j); });
            QObject::connect(q, &QXmppMucRoom::participantRemoved, q, [this, rr](const QString &j) { rr->sig << "removed:" + nickOf(*rr, j); });
            QObject::connect(q, &QXmppMucRoom::participantsChanged, q, [rr] { rr->sig << "pchg"; });
            QObject::connect(q, &QXmppMucRoom::nickNameChanged, q, [rr](const QString &n) { rr->sig << "nick:" + n; });
            QObject::connect(q, &QXmppMucRoom::subjectChanged, q, [rr](const QString &s) { rr->sig << "subject:" + s; });
            QObject::connect(q, &QXmppMucRoom::messageReceived, q, [rr](const QXmppMessage &) { rr->sig << "msg"; });
            QObject::connect(q, &QXmppMucRoom::nameChanged, q, [rr](const QString &s) { rr->sig << "name:" + s; });
            QObject::connect(q, &QXmppMucRoom::allowedActionsChanged, q, [rr](QXmppMucRoom::Actions a) { rr->sig << "acts:" + QString::number(int(a)); });
            QObject::connect(q, &QXmppMucRoom::configurationReceived, q, [rr](const QXmppDataForm &) { rr->sig << "conf"; });
            QObject::connect(q, &QXmppMucRoom::permissionsReceived, q, [rr](const QList<QXmppMucItem> &items) {
                QMap<QString, QString> m;
                for (const auto &it : items) {
                    m[idOfUser(it.jid())] = QXmppMucItem::affiliationToString(it.affiliation());
                }
                QString s = "perms:";
                for (auto it = m.begin(); it != m.end(); ++it) {
                    s += it.key() + "=" + it.value() + ";";
                }
                rr->sig << s;
            });
        }
        // a connected socket nobody answers on: one end of a socketpair (no TCP connection per
        // execution, hence no TIME_WAIT entries and no dependence on free loopback ports)
        int fds[2];
        if (::socketpair(AF_UNIX, SOCK_STREAM, 0, fds) != 0) {
            fprintf(stderr, "muc: socketpair failed\n");
            exit(2);
        }
        peerFd = fds[1];
        if (!c->stream()->socket()->setSocketDescriptor(fds[0], QAbstractSocket::ConnectedState) ||
            c->stream()->socket()->state() != QAbstractSocket::ConnectedState) {
            fprintf(stderr, "muc: the client socket does not accept the socketpair descriptor\n");
            exit(2);
        }
        c->fakeSession(true, false);
        if (!c->isConnected()) {
            fprintf(stderr, "muc: client does not consider itself connected\n");
            exit(2);
        }
        c->takeSent();
        for (auto *rr : rooms) {
            rr->sig.clear();
        }
        msig.clear();
    }

    RoomRig *rig(const QString &id)
    {
        for (auto *rr : rooms) {
            if (rr->id == id) {
                return rr;
            }
        }
        return nullptr;
    }

    // what the client wrote during the step, as the abstract descriptions of spec/Muc.tla
    QStringList sentProjection()
    {
        QStringList r;
        for (const auto &s : c->takeSent()) {
            if (!s.startsWith("<presence") && !s.startsWith("<message") && !s.startsWith("<iq")) {
                r << "other:" + s.left(12);
                continue;
            }
            ++smCount;
            QxvXml x(s);
            const auto tag = x.el.tagName();
            const auto to = x.el.attribute("to");
            const auto type = x.el.attribute("type");
            const auto room = idOfBare(QXmppUtils::jidToBareJid(to));
            if (tag == "presence") {
                if (to.isEmpty()) {
                    r << "pres::" + (type.isEmpty() ? QStringLiteral("av") : type);
                    continue;
                }
                bool muc = false;
                for (auto ch = x.el.firstChildElement("x"); !ch.isNull(); ch = ch.nextSiblingElement("x")) {
                    muc = muc || ch.namespaceURI() == "http://jabber.org/protocol/muc";
                }
                const auto kind = type == "unavailable" ? QStringLiteral("un") : !type.isEmpty() ? type : muc ? QStringLiteral("join") : QStringLiteral("av");
                r << "pres:" + room + "/" + QXmppUtils::jidToResource(to) + ":" + kind;
            } else if (tag == "message") {
                const auto subj = x.el.firstChildElement("subject").text();
                if (type == "groupchat" && !subj.isEmpty()) {
                    r << "subj:" + room + ":" + subj;
                } else if (type == "groupchat") {
                    r << "msg:" + room;
                } else {
                    r << "other:message";
                }
            } else {
                const auto q = x.el.firstChildElement("query");
                const auto ns = q.namespaceURI();
                const auto item = q.firstChildElement("item");
                if (ns == "http://jabber.org/protocol/muc#admin" && type == "set" && item.attribute("role") == "none" && item.hasAttribute("nick")) {
                    r << "kick:" + room + ":" + item.attribute("nick");
                } else if (ns == "http://jabber.org/protocol/muc#admin" && type == "set" && item.attribute("affiliation") == "outcast") {
                    r << "ban:" + room + ":" + idOfUser(item.attribute("jid"));
                } else if (ns == "http://jabber.org/protocol/muc#admin" && type == "get") {
                    r << "perm:" + room + ":" + item.attribute("affiliation");
                    permId[room + ":" + item.attribute("affiliation")] = x.el.attribute("id");
                } else if (ns == "http://jabber.org/protocol/muc#owner" && type == "get") {
                    r << "conf:" + room;
                } else if (ns == "http://jabber.org/protocol/disco#info" && type == "get") {
                    r << "disco:" + room;
                } else {
                    r << "other:iq:" + type;
                }
            }
        }
        return r;
    }

    QJsonObject observe()
    {
        QJsonObject ro;
        for (auto *rr : rooms) {
            QStringList parts;
            for (const auto &j : rr->room->participants()) {
                parts << nickOf(*rr, j);
            }
            ro[rr->id] = QJsonObject {
                { "joined", rr->room->isJoined() }, { "nick", rr->room->nickName() }, { "parts", jarr(parts) },
                { "subj", rr->room->subject() }, { "name", rr->room->name() }, { "acts", int(rr->room->allowedActions()) },
                { "sig", jarr(rr->sig) }
            };
            rr->sig.clear();
        }
        QJsonObject o { { "conn", c->isConnected() }, { "msig", jarr(msig) }, { "sent", jarr(sentProjection()) }, { "rooms", ro } };
        msig.clear();
        // the fake session has stream management on: the server acknowledges what it was sent, so
        // that nothing is left to be resent when a later Connect step re-enables stream management
        if (c->isConnected()) {
            c->inject(QStringLiteral("<a xmlns='urn:xmpp:sm:3' h='%1'/>").arg(smCount));
            c->takeSent();
        }
        return o;
    }
};

QString itemAttrs(const QString &cls)
{
    for (const auto &i : kItems) {
        if (cls == i.name) {
            return QStringLiteral("affiliation='%1' role='%2'").arg(i.aff, i.role);
        }
    }
    fprintf(stderr, "muc: unknown item class %s\n", qPrintable(cls));
    exit(2);
}

QString status(int code) { return QStringLiteral("<status code='%1'/>").arg(code); }

void runBehaviour(Ctx &ctx, const QString &caseId, const QJsonArray &steps)
{
    ctx.reset(caseId);
    ctx.out.flush();  // a crash inside the library must not lose the executions already recorded
    Env e;
    e.start();
    const QString to = QStringLiteral(" to='%1'").arg(kOwnFull);
    for (const auto &sv : steps) {
        const auto s = sv.toObject();
        const auto a = s["a"].toString();
        QJsonObject ev = s;
        ev["e"] = a;
        auto &c = *e.c;
        if (a == "SetNick" || a == "Join" || a == "Leave" || a == "SendMsg" || a == "SetSubj" || a == "Kick" || a == "Ban" || a == "ReqPerm" || a == "ReqConf") {
            auto *rr = e.rig(s["r"].toString());
            if (!rr) {
                fprintf(stderr, "muc: step on a room that is not managed: %s\n", qPrintable(s["r"].toString()));
                exit(2);
            }
            auto *room = rr->room;
            if (a == "SetNick") {
                room->setNickName(s["n"].toString());
            } else if (a == "Join") {
                room->join();
            } else if (a == "Leave") {
                room->leave();
            } else if (a == "SendMsg") {
                room->sendMessage(QStringLiteral("hello"));
            } else if (a == "SetSubj") {
                room->setSubject(s["s"].toString());
            } else if (a == "Kick") {
                room->kick(room->jid() + "/" + s["n"].toString(), QStringLiteral("why"));
            } else if (a == "Ban") {
                room->ban(userJid(s["u"].toString()), QStringLiteral("why"));
            } else if (a == "ReqPerm") {
                room->requestPermissions();
            } else {
                room->requestConfiguration();
            }
            QCoreApplication::processEvents();
        } else if (a == "PresAv") {
            const auto n = s["n"].toString(), cls = s["c"].toString();
            const auto from = fromJid(s["src"].toString(), n);
            if (n == "-") {
                // what services send from the room's own JID (XEP-0486 avatar hash)
                c.inject(QStringLiteral("<presence from='%1'%2><x xmlns='vcard-temp:x:update'><photo>0a1b2c</photo></x></presence>").arg(from, to));
            } else {
                QString codes;
                if (cls != "none") {
                    codes += status(110);
                }
                if (cls == "self201") {
                    codes += status(201);
                } else if (cls == "self210") {
                    codes += status(210);
                }
                c.inject(QStringLiteral("<presence from='%1'%2><x xmlns='http://jabber.org/protocol/muc#user'><item %3/>%4</x></presence>")
                             .arg(from, to, itemAttrs(s["it"].toString()), codes));
            }
        } else if (a == "PresUn") {
            const auto n = s["n"].toString(), k = s["k"].toString();
            const auto from = fromJid(s["src"].toString(), n);
            QString item, codes;
            if (k == "leave") {
                item = QStringLiteral("<item affiliation='none' role='none'/>");
            } else if (k == "nick") {
                item = QStringLiteral("<item affiliation='member' role='participant' nick='%1'/>").arg(s["m"].toString());
                codes = status(303);
            } else if (k == "kick") {
                item = QStringLiteral("<item affiliation='none' role='none'><actor jid='mod@example.org'/><reason>bye</reason></item>");
                codes = status(307);
            } else if (k == "ban") {
                item = QStringLiteral("<item affiliation='outcast' role='none'><actor jid='mod@example.org'/></item>");
                codes = status(301);
            } else {
                item = QStringLiteral("<item affiliation='none' role='none'/>");
                codes = status(321);
            }
            if (s["s110"].toBool()) {
                codes += status(110);
            }
            if (n == "-") {
                c.inject(QStringLiteral("<presence from='%1'%2 type='unavailable'/>").arg(from, to));
            } else {
                c.inject(QStringLiteral("<presence from='%1'%2 type='unavailable'><x xmlns='http://jabber.org/protocol/muc#user'>%3%4</x></presence>")
                             .arg(from, to, item, codes));
            }
        } else if (a == "PresErr") {
            const auto from = fromJid(s["src"].toString(), s["n"].toString());
            c.inject(QStringLiteral("<presence from='%1'%2 type='error'>%3<error type='cancel'><conflict xmlns='urn:ietf:params:xml:ns:xmpp-stanzas'/></error></presence>")
                         .arg(from, to, s["x"].toBool() ? QStringLiteral("<x xmlns='http://jabber.org/protocol/muc'/>") : QString()));
        } else if (a == "Msg") {
            const auto from = fromJid(s["src"].toString(), s["n"].toString());
            const auto ty = s["ty"].toString(), subj = s["s"].toString();
            QString body;
            if (!subj.isEmpty()) {
                body += QStringLiteral("<subject>%1</subject>").arg(subj);
            }
            if (s["b"].toBool()) {
                body += QStringLiteral("<body>text</body>");
            }
            if (ty == "error") {
                body += QStringLiteral("<error type='auth'><forbidden xmlns='urn:ietf:params:xml:ns:xmpp-stanzas'/></error>");
            }
            c.inject(QStringLiteral("<message from='%1'%2 type='%3' id='m%4'>%5</message>").arg(from, to, ty).arg(++e.n).arg(body));
        } else if (a == "Invite") {
            c.inject(QStringLiteral("<message from='friend@example.org/x'%1><x xmlns='jabber:x:conference' jid='%2' reason='come'/></message>")
                         .arg(to, bareOf(s["j"].toString())));
        } else if (a == "Disco") {
            const auto nm = s["nm"].toString();
            c.inject(QStringLiteral("<iq type='result' id='d%1' from='%2'%3><query xmlns='http://jabber.org/protocol/disco#info'>%4"
                                    "<feature var='http://jabber.org/protocol/muc'/></query></iq>")
                         .arg(++e.n)
                         .arg(bareOf(s["src"].toString()), to,
                              nm.isEmpty() ? QStringLiteral("<identity category='directory' type='chatroom' name='X'/>")
                                           : QStringLiteral("<identity category='conference' type='text' name='%1'/>").arg(nm)));
        } else if (a == "ConfRes") {
            c.inject(QStringLiteral("<iq type='result' id='c%1' from='%2'%3><query xmlns='http://jabber.org/protocol/muc#owner'>%4</query></iq>")
                         .arg(++e.n)
                         .arg(bareOf(s["src"].toString()), to,
                              s["f"].toBool() ? QStringLiteral("<x xmlns='jabber:x:data' type='form'><field var='FORM_TYPE' type='hidden'>"
                                                               "<value>http://jabber.org/protocol/muc#roomconfig</value></field></x>")
                                              : QString()));
        } else if (a == "PermRes") {
            const auto q = s["q"].toString();
            QString id = QStringLiteral("unknown-%1").arg(++e.n);
            if (s["idk"].toString() == "cur") {
                id = e.permId.value(s["rq"].toString() + ":" + q, id);
            }
            QString items;
            for (const auto &u : s["us"].toArray()) {
                items += QStringLiteral("<item affiliation='%1' jid='%2'/>").arg(q, userJid(u.toString()));
            }
            c.inject(QStringLiteral("<iq type='result' id='%1' from='%2'%3><query xmlns='http://jabber.org/protocol/muc#admin'>%4</query></iq>")
                         .arg(id, bareOf(s["src"].toString()), to, items));
        } else if (a == "OwnPres") {
            c.inject(QStringLiteral("<presence from='%1'%2/>").arg(kOwnFull, to));
        } else if (a == "Disconnect") {
            c.streamPrivate()->sessionStarted = false;
            c.emitDisconnected(s["k"].toString() == "resumable");
        } else if (a == "Connect") {
            const bool resumed = s["k"].toString() == "resumed";
            e.smCount = 0;  // fakeSession() re-enables stream management with fresh counters
            c.fakeSession(true, resumed);
            c.emitConnected(true, resumed);
        } else {
            fprintf(stderr, "muc: unknown step %s\n", qPrintable(a));
            exit(2);
        }
        ev["o"] = e.observe();
        ctx.emit_(ev);
    }
}

}  // namespace

QXV_DRIVER(muc)
{
    auto behs = ctx.behaviours();
    int n = 0;
    for (const auto &bv : behs) {
        runBehaviour(ctx, QString("m%1").arg(++n), bv.toObject()["steps"].toArray());
    }
    return 0;
}
