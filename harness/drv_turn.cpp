// qxv turn — drives a real QXmppTurnAllocation (src/base/QXmppStun.cpp) along behaviours of spec/Turn.tla
// against a scripted TURN server on loopback UDP (extension `turn`, lib/ext/turn.py).
//
// Input, one JSON object per line:
//   {"case":ID,"pw":B,"steps":[STEP...]}      pw: the client is configured with the server's password
//   STEP = {"a":"Connect"} {"a":"Disconnect"} {"a":"Write","p":P} {"a":"RefreshTimer"} {"a":"ChannelTimer"}
//          {"a":"Retransmit","t":T} {"a":"Timeout","t":T}
//          {"a":"Reply","t":T,"sh":SHAPE,"r":{"cls","code","mi","nonce","lt","rel","src","idm"}}
//          {"a":"ChanIn","c":C,"src":"srv|oth","len":"ok|pad|over"} {"a":"DataInd","p":P}
//   T = index of the transaction in order of creation (= order in which new transaction ids reach the server).
//
// Environment: two harness sockets on 127.0.0.1 in the same thread: `srv` (the address given to setServer)
// and `oth` (any other address).  The server never answers by itself: every response is a step of the
// behaviour, built with QXmppStunMessage::encode (valid / no / wrong-key MESSAGE-INTEGRITY) for the
// transaction id the client really used.  Peers are addresses only (192.0.2.<p>:4000<p>), nothing is sent there.
//
// Timers are not waited for.  The slots they would call are reached through Qt's meta-object system, which the
// public API allows: the refresh timer (a child QTimer of the allocation) is restarted with interval 0 so that
// it fires through its real connection; refreshChannels() and QXmppStunTransaction::retry() are invoked by name.
// The real intervals are observed (refresh timer interval, channel timer running, retransmission interval).
//
// Quiescence after each step: the event loop is turned until three consecutive rounds saw no datagram on the
// harness sockets, no signal, and the client's own socket (a child object) has nothing pending.  Loopback
// delivery is synchronous, so no sleep is involved; the bound of 400 rounds is a hang detector (quiet=false).
//
// Output: see spec/TurnTrace.tla.  What the client sent is logged as raw bytes; lib/ext/turn.py decodes them
// with its own STUN walk and verifies MESSAGE-INTEGRITY / FINGERPRINT with lib/refstun.py.
#include "qxv.h"

#include "QXmppStun_p.h"
#include "QXmppUtils.h"

#include <QCoreApplication>
#include <QCryptographicHash>
#include <QHostAddress>
#include <QNetworkDatagram>
#include <QTimer>
#include <QUdpSocket>

#include <memory>

namespace {

const QString kUser = QStringLiteral("alice");
const QString kRealm = QStringLiteral("turn.example.org");
const QString kServerPw = QString::fromUtf8("p\xc3\xa4ssw\xc3\xb6rd");
const QString kWrongPw = QStringLiteral("letmein");

QString hex(const QByteArray &b) { return QString::fromLatin1(b.toHex()); }

QByteArray longTermKey(const QString &user, const QString &realm, const QString &pw)
{
    return QCryptographicHash::hash((user + u':' + realm + u':' + pw).toUtf8(), QCryptographicHash::Md5);
}

QHostAddress peerHost(int p) { return QHostAddress(QStringLiteral("192.0.2.%1").arg(p)); }
quint16 peerPort(int p) { return quint16(40000 + p); }

struct Exec {
    Ctx &ctx;
    QUdpSocket &srv;
    QUdpSocket &oth;
    std::unique_ptr<QXmppTurnAllocation> alloc;
    QTimer *refreshTimer = nullptr;
    QTimer *channelTimer = nullptr;
    QList<QByteArray> txIds;      // transaction ids in order of first appearance at the server
    QList<QByteArray> txFirst;    // first transmission of each
    QJsonArray sigs, dgs, rx;
    int activity = 0;
    int sn = 1;                   // the scripted server's current nonce
    int stepNo = 0;

    Exec(Ctx &c, QUdpSocket &s, QUdpSocket &o) : ctx(c), srv(s), oth(o) { }

    QUdpSocket *clientSocket() const { return alloc->findChild<QUdpSocket *>(QString(), Qt::FindDirectChildrenOnly); }

    QXmppStunTransaction *findTx(int t) const
    {
        if (t < 1 || t > txIds.size()) {
            return nullptr;
        }
        const auto list = alloc->findChildren<QXmppStunTransaction *>(QString(), Qt::FindDirectChildrenOnly);
        for (auto *x : list) {
            if (x->request().id() == txIds[t - 1]) {
                return x;
            }
        }
        return nullptr;
    }

    void drainSocket(QUdpSocket &s, const char *name)
    {
        while (s.hasPendingDatagrams()) {
            QByteArray b(int(s.pendingDatagramSize()), 0);
            QHostAddress h;
            quint16 port = 0;
            s.readDatagram(b.data(), b.size(), &h, &port);
            ++activity;
            QJsonObject e { { "sock", name }, { "hex", hex(b) } };
            int ti = 0;
            bool re = false;
            const bool isStun = b.size() >= 20 && (quint8(b[0]) & 0xc0) == 0;
            if (isStun) {
                const QByteArray id = b.mid(8, 12);
                ti = txIds.indexOf(id) + 1;
                if (ti) {
                    re = true;
                } else {
                    txIds << id;
                    txFirst << b;
                    ti = txIds.size();
                }
            }
            e["ti"] = ti;
            e["re"] = re;
            rx.append(e);
        }
    }

    // returns false if the hang detector tripped
    bool settle()
    {
        int quietRounds = 0;
        for (int round = 0; round < 400 && quietRounds < 3; round++) {
            const int before = activity;
            QCoreApplication::sendPostedEvents();
            QCoreApplication::processEvents(QEventLoop::AllEvents);
            QCoreApplication::sendPostedEvents(nullptr, QEvent::DeferredDelete);
            drainSocket(srv, "srv");
            drainSocket(oth, "oth");
            auto *cs = clientSocket();
            const bool pending = cs && cs->hasPendingDatagrams();
            quietRounds = (activity == before && !pending) ? quietRounds + 1 : 0;
        }
        return quietRounds >= 3;
    }

    QString stateName() const
    {
        switch (alloc->state()) {
        case QXmppTurnAllocation::UnconnectedState:
            return "unconnected";
        case QXmppTurnAllocation::ConnectingState:
            return "connecting";
        case QXmppTurnAllocation::ConnectedState:
            return "connected";
        case QXmppTurnAllocation::ClosingState:
            return "closing";
        }
        return "?";
    }

    QJsonObject observe()
    {
        QJsonObject o;
        o["st"] = stateName();
        o["sig"] = sigs;
        o["rx"] = rx;
        o["dg"] = dgs;
        o["relp"] = int(alloc->relayedPort());
        o["relh"] = alloc->relayedHost().toString();
        o["rt"] = (refreshTimer && refreshTimer->isActive()) ? refreshTimer->interval() / 1000 : 0;
        o["ct"] = channelTimer && channelTimer->isActive();
        o["ntx"] = alloc->findChildren<QXmppStunTransaction *>(QString(), Qt::FindDirectChildrenOnly).size();
        sigs = QJsonArray();
        rx = QJsonArray();
        dgs = QJsonArray();
        return o;
    }

    QByteArray payload(int n)
    {
        // sizes that need padding and sizes that do not; first byte sometimes in the channel-number range
        static const int sizes[] = { 1, 4, 7, 32, 200, 1199 };
        QByteArray b(sizes[n % 6], 0);
        for (auto &ch : b) {
            ch = char(ctx.rnd(256));
        }
        if (n % 3 == 0) {
            b[0] = char(0x40 + n % 64);
        }
        return b;
    }

    // the response of a step, for the request `req` (its first transmission) of transaction t
    QByteArray buildReply(int t, const QJsonObject &r, const QString &sh)
    {
        const QByteArray req = txFirst[t - 1];
        const quint16 reqType = quint16((quint8(req[0]) << 8) | quint8(req[1]));
        quint16 method = reqType & 0x3eef;
        const QString idm = r["idm"].toString();
        QXmppStunMessage m;
        if (idm == "wrongm") {
            method = (method == QXmppStunMessage::Refresh) ? quint16(QXmppStunMessage::Allocate) : quint16(QXmppStunMessage::Refresh);
        }
        const bool ok = r["cls"].toString() == "ok";
        m.setType(method | (ok ? QXmppStunMessage::Response : QXmppStunMessage::Error));
        if (idm == "unknown") {
            QByteArray id(12, 0);
            for (auto &ch : id) {
                ch = char(ctx.rnd(256));
            }
            m.setId(id);
        } else {
            m.setId(req.mid(8, 12));
        }
        if (ok) {
            // the duplicate of a finished transaction and the forged successes have the form the method asks for
            const bool isAlloc = method == QXmppStunMessage::Allocate;
            const bool isRefresh = method == QXmppStunMessage::Refresh;
            if (isAlloc && r["rel"].toString() == "ok") {
                m.xorRelayedHost = QHostAddress(QStringLiteral("192.0.2.15"));
                m.xorRelayedPort = quint16(49000 + t);
            }
            if (isAlloc) {
                auto *cs = clientSocket();
                m.xorMappedHost = QHostAddress(QHostAddress::LocalHost);
                m.xorMappedPort = cs ? cs->localPort() : quint16(1);
            }
            int lt = r["lt"].toInt();
            if (sh == "dup" && isRefresh) {
                lt = 600;
            }
            if ((isAlloc || isRefresh) && lt >= 0) {
                m.setLifetime(quint32(lt));
            }
        } else {
            const int code = r["code"].toInt();
            m.errorCode = code;
            m.errorPhrase = code == 401 ? "Unauthorized" : code == 438 ? "Stale Nonce" : code == 437 ? "Allocation Mismatch" : "Forbidden";
            if (code == 401 || code == 438) {
                m.setRealm(kRealm);
                m.setNonce(QByteArray("nonce-") + QByteArray::number(r["nonce"].toInt()));
            }
        }
        m.setSoftware(QStringLiteral("qxv scripted TURN"));
        const QString mi = r["mi"].toString();
        QByteArray key;
        if (mi == "valid") {
            key = longTermKey(kUser, kRealm, kServerPw);
        } else if (mi == "bad") {
            key = longTermKey(kUser, kRealm, QStringLiteral("not the password"));
        }
        return m.encode(key, true);
    }

    bool run(const QString &caseId, const QJsonObject &b)
    {
        const bool pw = b["pw"].toBool();
        const QString cpw = pw ? kServerPw : kWrongPw;
        QJsonArray peers;
        for (int p = 1; p <= 3; p++) {
            peers.append(QJsonObject { { "p", p }, { "host", peerHost(p).toString() }, { "port", int(peerPort(p)) } });
        }
        ctx.reset(caseId, { { "pw", pw }, { "user", kUser }, { "realm", kRealm }, { "cpw", cpw }, { "spw", kServerPw },
                            { "peers", peers }, { "prefix", b["prefix"].toInt(-1) } });
        // leftovers of the previous execution
        while (srv.hasPendingDatagrams()) {
            srv.receiveDatagram();
        }
        while (oth.hasPendingDatagrams()) {
            oth.receiveDatagram();
        }
        alloc = std::make_unique<QXmppTurnAllocation>();
        const auto timers = alloc->findChildren<QTimer *>(QString(), Qt::FindDirectChildrenOnly);
        for (auto *t : timers) {
            if (t->isSingleShot() && !refreshTimer) {
                refreshTimer = t;
            } else if (!t->isSingleShot() && !channelTimer) {
                channelTimer = t;
            }
        }
        alloc->setServer(QHostAddress(QHostAddress::LocalHost), srv.localPort());
        alloc->setUser(kUser);
        alloc->setPassword(cpw);
        QObject::connect(alloc.get(), &QXmppTurnAllocation::connected, alloc.get(), [this]() { sigs.append("connected"); ++activity; });
        QObject::connect(alloc.get(), &QXmppTurnAllocation::disconnected, alloc.get(), [this]() { sigs.append("disconnected"); ++activity; });
        QObject::connect(alloc.get(), &QXmppIceTransport::datagramReceived, alloc.get(),
                         [this](const QByteArray &d, const QHostAddress &h, quint16 port) {
                             dgs.append(QJsonObject { { "host", h.toString() }, { "port", int(port) }, { "hex", hex(d) } });
                             ++activity;
                         });

        const auto steps = b["steps"].toArray();
        for (const auto &sv : steps) {
            const auto s = sv.toObject();
            const QString a = s["a"].toString();
            QJsonObject ev { { "e", a }, { "sn", sn } };
            QString abort;
            ++stepNo;
            if (a == "Connect") {
                alloc->connectToHost();
            } else if (a == "Disconnect") {
                alloc->disconnectFromHost();
            } else if (a == "Write") {
                const int p = s["p"].toInt();
                const QByteArray d = payload(stepNo);
                const qint64 ret = alloc->writeDatagram(d, peerHost(p), peerPort(p));
                ev["p"] = p;
                ev["d"] = hex(d);
                ev["ret"] = ret == d.size() ? "ok" : ret == -1 ? "fail" : "other";
            } else if (a == "RefreshTimer") {
                if (refreshTimer && refreshTimer->isActive()) {
                    refreshTimer->start(0);   // expires at the next turn of the event loop, through its own connection
                } else {
                    abort = "the refresh timer is not running";
                }
            } else if (a == "ChannelTimer") {
                if (channelTimer && channelTimer->isActive()) {
                    if (!QMetaObject::invokeMethod(alloc.get(), "refreshChannels", Qt::DirectConnection)) {
                        abort = "no slot refreshChannels";
                    }
                } else {
                    abort = "the channel timer is not running";
                }
            } else if (a == "Retransmit" || a == "Timeout") {
                const int t = s["t"].toInt();
                ev["t"] = t;
                auto *x = findTx(t);
                if (!x) {
                    abort = "no such outstanding transaction";
                } else if (a == "Retransmit") {
                    QMetaObject::invokeMethod(x, "retry", Qt::DirectConnection);
                    auto *rt = x->findChild<QTimer *>();
                    ev["rto"] = rt && rt->isActive() ? rt->interval() : -1;
                } else {
                    int calls = 0;
                    for (; calls < 12 && (x = findTx(t)); calls++) {
                        QMetaObject::invokeMethod(x, "retry", Qt::DirectConnection);
                        QCoreApplication::sendPostedEvents(nullptr, QEvent::DeferredDelete);
                    }
                    ev["calls"] = calls;
                }
            } else if (a == "Reply") {
                const int t = s["t"].toInt();
                const auto r = s["r"].toObject();
                const QString sh = s["sh"].toString();
                ev["t"] = t;
                ev["sh"] = sh;
                ev["r"] = r;
                if (t < 1 || t > txIds.size()) {
                    abort = "no such transaction";
                } else {
                    auto *cs = clientSocket();
                    if (!cs || cs->localPort() == 0) {
                        abort = "the client has no socket";
                    } else {
                        const QByteArray resp = buildReply(t, r, sh);
                        auto &sock = r["src"].toString() == "oth" ? oth : srv;
                        sock.writeDatagram(resp, QHostAddress(QHostAddress::LocalHost), cs->localPort());
                        if (sh == "stale") {
                            ++sn;
                        }
                    }
                }
            } else if (a == "ChanIn" || a == "DataInd") {
                auto *cs = clientSocket();
                const QByteArray d = payload(stepNo);
                ev["d"] = hex(d);
                if (!cs || cs->localPort() == 0) {
                    // an allocation that never connected has no bound socket: nothing can arrive
                    ev["nosock"] = true;
                } else if (a == "ChanIn") {
                    const int c = s["c"].toInt();
                    const QString len = s["len"].toString();
                    ev["c"] = c;
                    ev["src"] = s["src"].toString();
                    ev["len"] = len;
                    QByteArray body = d;
                    if (len == "pad") {
                        body += QByteArray((4 - d.size() % 4) % 4 + 4, '\0');   // always some padding
                    }
                    const int field = len == "over" ? d.size() + 4 : d.size();
                    const quint16 num = quint16(0x4000 + c);
                    QByteArray m;
                    m.append(char(num >> 8)).append(char(num & 0xff)).append(char(field >> 8)).append(char(field & 0xff)).append(body);
                    auto &sock = s["src"].toString() == "oth" ? oth : srv;
                    sock.writeDatagram(m, QHostAddress(QHostAddress::LocalHost), cs->localPort());
                } else {
                    const int p = s["p"].toInt();
                    ev["p"] = p;
                    QXmppStunMessage m;
                    m.setType(int(QXmppStunMessage::Data) | int(QXmppStunMessage::Indication));
                    QByteArray id(12, 0);
                    for (auto &ch : id) {
                        ch = char(ctx.rnd(256));
                    }
                    m.setId(id);
                    m.xorPeerHost = peerHost(p);
                    m.xorPeerPort = peerPort(p);
                    m.setData(d);
                    srv.writeDatagram(m.encode(QByteArray(), true), QHostAddress(QHostAddress::LocalHost), cs->localPort());
                }
                if (a == "ChanIn" && !ev.contains("c")) {
                    ev["c"] = s["c"].toInt();
                    ev["src"] = s["src"].toString();
                    ev["len"] = s["len"].toString();
                }
                if (a == "DataInd") {
                    ev["p"] = s["p"].toInt();
                }
            } else {
                fprintf(stderr, "turn: unknown step %s\n", qPrintable(a));
                return false;
            }
            if (!abort.isEmpty()) {
                // the behaviour comes from the model; the implementation went another way and the step
                // is impossible on the real objects: the execution ends here
                ctx.emit_(QJsonObject { { "e", "Abort" }, { "step", a }, { "why", abort }, { "st", stateName() } });
                break;
            }
            const bool quiet = settle();
            ev["o"] = observe();
            ev["quiet"] = quiet;
            ctx.emit_(ev);
        }
        alloc.reset();
        QCoreApplication::sendPostedEvents(nullptr, QEvent::DeferredDelete);
        return true;
    }
};

}  // namespace

QXV_DRIVER(turn)
{
    QUdpSocket srv, oth;
    if (!srv.bind(QHostAddress(QHostAddress::LocalHost), 0) || !oth.bind(QHostAddress(QHostAddress::LocalHost), 0)) {
        fprintf(stderr, "turn: cannot bind loopback UDP sockets\n");
        return 2;
    }
    int n = 0;
    for (const auto &bv : ctx.behaviours()) {
        const auto b = bv.toObject();
        const QString id = b.contains("case") ? b["case"].toString() : QStringLiteral("x%1").arg(n);
        ++n;
        Exec e(ctx, srv, oth);
        if (!e.run(id, b)) {
            return 2;
        }
    }
    return 0;
}
