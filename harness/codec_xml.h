// codec_xml.h — XML helpers shared by the codec driver files.
#pragma once

#include <QDomDocument>
#include <QDomElement>
#include <QList>
#include <QMap>
#include <QString>
#include <QStringList>
#include <QTextStream>
#include <QXmlStreamReader>

// --------------------------------------------------------------------------- XML helpers
inline const QString NS_STREAM = QStringLiteral("http://etherx.jabber.org/streams");

// Parse one element inside a stream root that declares the stream prefix and the given default
// namespace (what XmppSocket does with data from the wire).  *ok = false: not well-formed.
// True iff some start tag of the (syntactically valid) text carries the same attribute name twice.
// Qt's readers do not notice a repeated xmlns / xmlns:p declaration (they treat declarations apart
// from attributes); XML 1.0 (3.1, "Unique Att Spec") and every other parser reject it.
inline bool hasRepeatedAttribute(const QString &t)
{
    const int n = t.size();
    int i = 0;
    while (i < n) {
        if (t[i] != QChar('<')) {
            i++;
            continue;
        }
        if (t.midRef(i, 4) == QLatin1String("<!--")) {
            int e = t.indexOf(QLatin1String("-->"), i + 4);
            i = e < 0 ? n : e + 3;
            continue;
        }
        if (t.midRef(i, 9) == QLatin1String("<![CDATA[")) {
            int e = t.indexOf(QLatin1String("]]>"), i + 9);
            i = e < 0 ? n : e + 3;
            continue;
        }
        if (i + 1 < n && (t[i + 1] == QChar('?') || t[i + 1] == QChar('!') || t[i + 1] == QChar('/'))) {
            int e = t.indexOf(QChar('>'), i);
            i = e < 0 ? n : e + 1;
            continue;
        }
        // start tag: name, then attributes
        i++;
        while (i < n && !t[i].isSpace() && t[i] != QChar('>') && t[i] != QChar('/')) {
            i++;
        }
        QStringList names;
        while (i < n && t[i] != QChar('>')) {
            if (t[i].isSpace() || t[i] == QChar('/')) {
                i++;
                continue;
            }
            int s = i;
            while (i < n && t[i] != QChar('=') && !t[i].isSpace() && t[i] != QChar('>')) {
                i++;
            }
            const auto name = t.mid(s, i - s);
            while (i < n && (t[i].isSpace() || t[i] == QChar('='))) {
                i++;
            }
            if (i < n && (t[i] == QChar('"') || t[i] == QChar('\''))) {
                const QChar q = t[i];
                int e = t.indexOf(q, i + 1);
                i = e < 0 ? n : e + 1;
            }
            if (names.contains(name)) {
                return true;
            }
            names << name;
        }
    }
    return false;
}

inline QDomElement parseWrapped(QDomDocument &doc, const QString &xml, const QString &defaultNs, bool *ok)
{
    // the prefixes a stream root declares: stream (always) and db (server dialback)
    QString w = QStringLiteral("<stream:stream xmlns:stream='http://etherx.jabber.org/streams' xmlns:db='jabber:server:dialback'");
    if (!defaultNs.isEmpty()) {
        QString esc = defaultNs;
        esc.replace('&', "&amp;").replace('\'', "&apos;").replace('<', "&lt;");
        w += QStringLiteral(" xmlns='") + esc + QStringLiteral("'");
    }
    w += QStringLiteral(">") + xml + QStringLiteral("</stream:stream>");
    // Well-formedness is decided by a conforming reader: QDomDocument::setContent (QXmlSimpleReader)
    // accepts a start tag that carries the same attribute twice, and neither of Qt's readers notices
    // a repeated xmlns declaration, which every other XML parser rejects.
    {
        QXmlStreamReader strict(w);
        while (!strict.atEnd()) {
            strict.readNext();
        }
        if (strict.hasError() || hasRepeatedAttribute(xml)) {
            doc.clear();
            *ok = false;
            return {};
        }
    }
    QString err;
    if (!doc.setContent(w, true, &err)) {
        doc.clear();
        *ok = false;
        return {};
    }
    auto first = doc.documentElement().firstChildElement();
    // exactly one element
    *ok = !first.isNull() && first.nextSiblingElement().isNull();
    return first;
}

// A serialized fragment (zero or more sibling elements) parsed inside the stream root.
struct Fragment {
    QDomDocument doc;
    QDomElement root;   // the stream root: parent of the fragment's elements
    int n = 0;          // number of top-level elements
    bool wf = false;
    QDomElement single() const { return root.firstChildElement(); }
};

inline Fragment parseFragment(const QByteArray &xml, const QString &defaultNs)
{
    Fragment f;
    bool ok = false;
    parseWrapped(f.doc, QString::fromUtf8(xml), defaultNs, &ok);
    // parseWrapped's ok means "exactly one element": decide well-formedness on the document itself
    f.root = f.doc.documentElement();
    f.wf = !f.root.isNull();
    for (auto c = f.root.firstChildElement(); !c.isNull(); c = c.nextSiblingElement()) {
        f.n++;
    }
    return f;
}

inline QString saveElement(const QDomElement &el)
{
    QString s;
    QTextStream ts(&s);
    el.save(ts, -1);
    return s;
}

inline bool isNsDecl(const QString &name)
{
    return name == QLatin1String("xmlns") || name.startsWith(QLatin1String("xmlns:"));
}

inline QString localOf(const QDomElement &e)
{
    auto l = e.localName();
    return l.isEmpty() ? e.tagName() : l;
}

// Canonical form: namespace + local name, attributes sorted by name, children in document order
// (ordered) or sorted (up to sibling order); values = false erases attribute values and text:
// the element structure only.
inline QString canon(const QDomElement &e, bool ordered, bool values)
{
    QStringList attrs;
    auto am = e.attributes();
    for (int i = 0; i < am.count(); i++) {
        auto a = am.item(i).toAttr();
        if (isNsDecl(a.name())) {
            continue;
        }
        attrs << (values ? a.name() + QChar('=') + a.value() : a.name());
    }
    attrs.sort();
    QStringList kids;
    QString text;
    for (auto n = e.firstChild(); !n.isNull(); n = n.nextSibling()) {
        if (n.isElement()) {
            if (!text.isEmpty()) {
                kids << QStringLiteral("T:") + text;
                text.clear();
            }
            kids << canon(n.toElement(), ordered, values);
        } else if (n.isText() || n.isCDATASection()) {
            if (values) {
                text += n.nodeValue();
            }
        }
    }
    if (!text.isEmpty()) {
        kids << QStringLiteral("T:") + text;
    }
    if (!ordered) {
        kids.sort();
    }
    return QChar('{') + e.namespaceURI() + QChar('}') + localOf(e) + QChar('[') + attrs.join(QChar(0x1f)) + QStringLiteral("](") +
        kids.join(QChar(0x1e)) + QChar(')');
}

inline QList<QDomElement> childElements(const QDomElement &e)
{
    QList<QDomElement> r;
    for (auto c = e.firstChildElement(); !c.isNull(); c = c.nextSiblingElement()) {
        r << c;
    }
    return r;
}


// Where two fragments differ: the shortest locator (local-name path, @attribute, #text) whose
// number of occurrences differs; "-" = present in the first only, "+" = more often in the second,
// "~" = same shape, different values.  Used for address-free violation signatures.
inline void countLocators(const QDomElement &e, const QString &path, QMap<QString, int> &out)
{
    const QString here = path + QChar('/') + localOf(e);
    out[here]++;
    auto am = e.attributes();
    for (int i = 0; i < am.count(); i++) {
        auto a = am.item(i).toAttr();
        if (!isNsDecl(a.name())) {
            out[here + QChar('@') + a.name()]++;
        }
    }
    bool text = false;
    for (auto n = e.firstChild(); !n.isNull(); n = n.nextSibling()) {
        if (n.isElement()) {
            countLocators(n.toElement(), here, out);
        } else if (n.isText() || n.isCDATASection()) {
            text = true;
        }
    }
    if (text) {
        out[here + QStringLiteral("#text")]++;
    }
}

inline void collectValues(const QDomElement &e, const QString &path, QMap<QString, QStringList> &out)
{
    const QString here = path + QChar('/') + localOf(e);
    auto am = e.attributes();
    for (int i = 0; i < am.count(); i++) {
        auto a = am.item(i).toAttr();
        if (!isNsDecl(a.name())) {
            out[here + QChar('@') + a.name()] << a.value();
        }
    }
    QString text;
    for (auto n = e.firstChild(); !n.isNull(); n = n.nextSibling()) {
        if (n.isElement()) {
            collectValues(n.toElement(), here, out);
        } else if (n.isText() || n.isCDATASection()) {
            text += n.nodeValue();
        }
    }
    if (!text.isEmpty()) {
        out[here + QStringLiteral("#text")] << text;
    }
}

inline QString diffLocus(const QDomElement &root1, const QDomElement &root2)
{
    QMap<QString, int> a, b;
    for (const auto &c : childElements(root1)) {
        countLocators(c, QString(), a);
    }
    for (const auto &c : childElements(root2)) {
        countLocators(c, QString(), b);
    }
    QString best;
    auto consider = [&](const QString &k, int ca, int cb) {
        if (ca == cb) {
            return;
        }
        QString s = (ca > cb ? QChar('-') : QChar('+')) + k;
        if (best.isEmpty() || k.size() < best.size() - 1 || (k.size() == best.size() - 1 && s < best)) {
            best = s;
        }
    };
    for (auto it = a.begin(); it != a.end(); ++it) {
        consider(it.key(), it.value(), b.value(it.key()));
    }
    for (auto it = b.begin(); it != b.end(); ++it) {
        if (!a.contains(it.key())) {
            consider(it.key(), 0, it.value());
        }
    }
    if (!best.isEmpty()) {
        return best;
    }
    // same shape: the shortest locator whose values differ
    QMap<QString, QStringList> va, vb;
    for (const auto &c : childElements(root1)) {
        collectValues(c, QString(), va);
    }
    for (const auto &c : childElements(root2)) {
        collectValues(c, QString(), vb);
    }
    for (auto it = va.begin(); it != va.end(); ++it) {
        auto l1 = it.value(), l2 = vb.value(it.key());
        l1.sort();
        l2.sort();
        if (l1 != l2 && (best.isEmpty() || it.key().size() < best.size() - 1)) {
            best = QChar('~') + it.key();
        }
    }
    return best.isEmpty() ? QStringLiteral("~values") : best;
}
