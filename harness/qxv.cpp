#include "qxv.h"

#include <QCoreApplication>
#include <QTextStream>

#include <cstdio>
#include <cstdlib>
#include <exception>
#include <map>
#include <string>
#include <unistd.h>

static std::map<std::string, DriverFn> &registry()
{
    static std::map<std::string, DriverFn> r;
    return r;
}

DriverReg::DriverReg(const char *name, DriverFn fn) { registry()[name] = fn; }

static Ctx *g_ctx = nullptr;

void Ctx::emit_(const QJsonObject &o)
{
    out.write(QJsonDocument(o).toJson(QJsonDocument::Compact));
    out.write("\n");
    ++lines;
}

void Ctx::reset(const QString &caseId, QJsonObject extra)
{
    extra.insert("e", "Reset");
    extra.insert("case", caseId);
    emit_(extra);
    ++cases;
}

QVector<QJsonValue> Ctx::behaviours() const
{
    QVector<QJsonValue> r;
    if (inPath.isEmpty()) {
        return r;
    }
    QFile f(inPath);
    if (!f.open(QIODevice::ReadOnly)) {
        fprintf(stderr, "qxv: cannot open %s\n", qPrintable(inPath));
        exit(2);
    }
    while (!f.atEnd()) {
        auto line = f.readLine().trimmed();
        if (line.isEmpty()) {
            continue;
        }
        QJsonParseError err;
        auto doc = QJsonDocument::fromJson(line, &err);
        if (err.error != QJsonParseError::NoError) {
            // scalars / arrays of scalars are not documents for Qt 5: wrap
            doc = QJsonDocument::fromJson("[" + line + "]", &err);
            if (err.error != QJsonParseError::NoError) {
                fprintf(stderr, "qxv: bad behaviour line: %s\n", line.constData());
                exit(2);
            }
            r.append(doc.array().at(0));
            continue;
        }
        r.append(doc.isArray() ? QJsonValue(doc.array()) : QJsonValue(doc.object()));
    }
    return r;
}

QJsonArray jarr(const QStringList &l)
{
    QJsonArray a;
    for (const auto &s : l) {
        a.append(s);
    }
    return a;
}

static void onTerminate()
{
    // keep whatever has been traced so far: a truncated trace hides the step that failed
    if (g_ctx) {
        g_ctx->emit_(QJsonObject { { "e", "Crash" }, { "what", "std::terminate" } });
        g_ctx->out.flush();
    }
    _exit(3);
}

int main(int argc, char **argv)
{
    QCoreApplication app(argc, argv);
    std::set_terminate(onTerminate);
    if (argc < 2) {
        fprintf(stderr, "usage: qxv <driver> [--in=F] [--out=F] [--seed=N] [--tier=quick|thorough] [--k=v]\navailable:");
        for (auto &[k, v] : registry()) {
            fprintf(stderr, " %s", k.c_str());
        }
        fprintf(stderr, "\n");
        return 2;
    }
    Ctx ctx;
    g_ctx = &ctx;
    ctx.driver = argv[1];
    for (int i = 2; i < argc; i++) {
        QString a = argv[i];
        if (!a.startsWith("--")) {
            continue;
        }
        a = a.mid(2);
        int eq = a.indexOf('=');
        QString k = eq < 0 ? a : a.left(eq), v = eq < 0 ? "1" : a.mid(eq + 1);
        if (k == "in") {
            ctx.inPath = v;
        } else if (k == "out") {
            ctx.outPath = v;
        } else if (k == "seed") {
            ctx.seed = v.toULongLong();
        } else if (k == "tier") {
            ctx.tier = v;
        } else {
            ctx.opt[k] = v;
        }
    }
    ctx.rng.seed(ctx.seed);
    auto it = registry().find(ctx.driver.toStdString());
    if (it == registry().end()) {
        fprintf(stderr, "qxv: unknown driver %s\n", qPrintable(ctx.driver));
        return 2;
    }
    if (ctx.outPath.isEmpty()) {
        ctx.out.open(stdout, QIODevice::WriteOnly);
    } else {
        ctx.out.setFileName(ctx.outPath);
        if (!ctx.out.open(QIODevice::WriteOnly | QIODevice::Truncate)) {
            fprintf(stderr, "qxv: cannot write %s\n", qPrintable(ctx.outPath));
            return 2;
        }
    }
    int rc = it->second(ctx);
    ctx.out.flush();
    fprintf(stderr, "qxv %s: %lld cases, %lld trace lines\n", qPrintable(ctx.driver), (long long)ctx.cases, (long long)ctx.lines);
    return rc;
}
