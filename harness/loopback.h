// Loopback transport helpers: a scripted peer living in the same thread as the object under
// test, talking over real 127.0.0.1 sockets. There is no wall-clock ordering anywhere: the
// order of trace events is program order. Waiting is always for a *condition* (bytes arrived,
// element consumed, socket state) with a timeout that is only a hang detector.
#pragma once

#include <QCoreApplication>
#include <QElapsedTimer>
#include <QFile>
#include <QHostAddress>
#include <QSslCertificate>
#include <QSslConfiguration>
#include <QSslKey>
#include <QSslSocket>
#include <QTcpServer>

#include <functional>
#include <memory>

#ifndef QXV_HARNESS_DIR
#define QXV_HARNESS_DIR "/verif/harness"
#endif

// Spin the event loop until pred() holds. Returns false on timeout (hang detector).
inline bool qxvSpin(const std::function<bool()> &pred, int timeoutMs = 4000)
{
    QElapsedTimer t;
    t.start();
    while (!pred()) {
        if (t.elapsed() > timeoutMs) {
            return false;
        }
        QCoreApplication::processEvents(QEventLoop::AllEvents, 2);
    }
    return true;
}

// Let everything already posted run (queued signals, singleShot(0), deleteLater).
inline void qxvDrain(int rounds = 4)
{
    for (int i = 0; i < rounds; i++) {
        QCoreApplication::sendPostedEvents();
        QCoreApplication::processEvents(QEventLoop::AllEvents);
    }
}

// A TCP server accepting QSslSocket connections (plain until startTls()).
class QxvSslServer : public QTcpServer
{
public:
    using QTcpServer::QTcpServer;
    std::function<void(QSslSocket *)> onConnection;

protected:
    void incomingConnection(qintptr fd) override
    {
        auto *s = new QSslSocket(this);
        s->setSocketDescriptor(fd);
        if (onConnection) {
            onConnection(s);
        }
    }
};

// Scripted server-side peer: accepts connections one after the other on a fixed port,
// collects everything it receives, writes what the script says.
class LoopPeer : public QObject
{
public:
    LoopPeer()
    {
        server.onConnection = [this](QSslSocket *s) {
            if (sock) {
                // previous connection object (already closed) is replaced
                sock->disconnect(this);
                sock->deleteLater();
            }
            sock = s;
            s->setSocketOption(QAbstractSocket::LowDelayOption, 1);  // no Nagle/delayed-ACK stalls (40 ms each)
            ++connections;
            peerClosed = false;
            received.clear();
            QObject::connect(s, &QSslSocket::readyRead, this, [this, s]() {
                auto d = s->readAll();
                received += d;
                totalReceived += d.size();
            });
            QObject::connect(s, &QSslSocket::disconnected, this, [this, s]() {
                if (s == sock) {
                    peerClosed = true;
                }
            });
        };
        server.listen(QHostAddress::LocalHost, 0);
    }
    quint16 port() const { return server.serverPort(); }

    bool waitConnection(int n, int ms = 3000)
    {
        return qxvSpin([&] { return connections >= n; }, ms);
    }
    bool isOpen() const { return sock && sock->state() == QAbstractSocket::ConnectedState; }
    void write(const QByteArray &data)
    {
        if (isOpen()) {
            sock->write(data);
            sock->flush();
        }
    }
    // hard cut (RST-like): the object under test sees the connection drop
    void cut()
    {
        if (sock) {
            sock->abort();
        }
    }
    // graceful close from the peer side
    void closeGracefully()
    {
        if (sock) {
            sock->disconnectFromHost();
        }
    }
    bool startTls(int ms = 5000)
    {
        if (!isOpen()) {
            return false;
        }
        QFile cf(QStringLiteral(QXV_HARNESS_DIR "/testcert.pem")), kf(QStringLiteral(QXV_HARNESS_DIR "/testkey.pem"));
        if (!cf.open(QIODevice::ReadOnly) || !kf.open(QIODevice::ReadOnly)) {
            fprintf(stderr, "loopback: test certificate missing\n");
            exit(2);
        }
        sock->setLocalCertificate(QSslCertificate(cf.readAll()));
        sock->setPrivateKey(QSslKey(kf.readAll(), QSsl::Rsa));
        sock->setPeerVerifyMode(QSslSocket::VerifyNone);
        sock->startServerEncryption();
        auto *s = sock;
        return qxvSpin([&] { return s->isEncrypted() || s->state() != QAbstractSocket::ConnectedState; }, ms) && s->isEncrypted();
    }
    bool encrypted() const { return sock && sock->isEncrypted(); }
    QByteArray takeReceived()
    {
        auto r = received;
        received.clear();
        return r;
    }

    QxvSslServer server;
    QSslSocket *sock = nullptr;
    int connections = 0;
    bool peerClosed = false;
    QByteArray received;
    qint64 totalReceived = 0;
};
