// qxv s2s — drives a real QXmppServer with server-to-server streams enabled along behaviours of
// spec/S2s.tla (extension `s2s`: QXmppIncomingServer, QXmppOutgoingServer, QXmppDialback and the s2s
// parts of QXmppServer; XEP-0220 Server Dialback).
//
// World of one execution:
//   L   the server under test, domain "local.test", listenForServers(127.0.0.1, port chosen by the OS),
//       with one QXmppServerExtension that records every element the server accepts for processing
//   R,A the servers of two remote domains (R honest, A the attacker's): scripted TCP listeners on
//       <two loopback addresses of this process>:5269.  The domain NAMES are these addresses, so that
//       QXmppOutgoingServer::connectToHost (SRV lookup, which fails offline, then fallback to
//       <domain>:5269) reaches the scripted listener with the unmodified library.
//   c1,c2  remote parties connecting to L's s2s port (scripted raw TCP clients)
// Steps (spec/S2s.tla has the same alphabet):
//   {"a":"IOpen","i":i}                                  client i connects and opens a stream
//   {"a":"IResult","i":i,"d":D,"key":"good|bad","shape":"ok|typed|wrongto|nokey"}   <db:result from=D>key</>
//   {"a":"IVerifyReq","i":i,"d":D,"idk":"right|other","key":"good|bad"}             <db:verify from=D id key/>
//   {"a":"IStanza","i":i,"fd":"R|A|L|none","n":n}        <message from='eve@fd'>
//   {"a":"IWs","i":i}                                    whitespace keepalive
//   {"a":"IClose","i":i,"how":"end|cut"}
//   {"a":"Listen","d":D,"up":bool}                       the server of domain D goes down / comes back
//   {"a":"Send","d":D,"n":n}                             QXmppServer::sendPacket(message to bob@D, body m<n>)
//   {"a":"OHeader","k":k}                                the k-th connection L made is answered: header + features
//   {"a":"OVerifyAns","k":k,"from":D,"idk":"right|other","ty":"valid|invalid","to":"L|X"}
//   {"a":"OResult","k":k,"ty":"valid|invalid","from":D,"to":"L|X"}
//   {"a":"OStanza","k":k}                                the remote server writes a stanza on L's outgoing stream
//   {"a":"OClose","k":k}
// Trace line: the step + "o": {"ins":[{"open","rx":[..]} x2], "oc":[{"dom","open","rx":[..]} per connection L made],
//   "acc":[..], "cnt":{"inc","out","ver"}, "ret":"t|f|-"}   (labels: see label*() below; spec/S2sTrace.tla judges them)
#include "qxv.h"
#include "s2s_peer.h"

#include "QXmppIncomingServer.h"
#include "QXmppLogger.h"
#include "QXmppMessage.h"
#include "QXmppOutgoingServer.h"
#include "QXmppServer.h"
#include "QXmppServerExtension.h"
#include "QXmppUtils.h"

#include <QDomElement>
#include <QThread>

#include <unistd.h>

namespace {

const QString kLocal = QStringLiteral("local.test");
const QString kOther = QStringLiteral("other.test");
constexpr int NI = 2;

// the remote domains of this process: two loopback addresses derived from the pid, so that several
// runs on one machine do not compete for <address>:5269
struct Net {
    S2sListener lis[2];   // 0 = R, 1 = A
    QString name[2];
    bool ok = false;

    Net()
    {
        const int pid = int(getpid());
        for (int attempt = 0; attempt < 64 && !ok; attempt++) {
            const int x = 16 + ((pid >> 8) + attempt * 7) % 200, y = pid & 255;
            name[0] = QStringLiteral("127.%1.%2.2").arg(x).arg(y);
            name[1] = QStringLiteral("127.%1.%2.3").arg(x).arg(y);
            lis[0].addr = QHostAddress(name[0]);
            lis[1].addr = QHostAddress(name[1]);
            lis[0].label = QStringLiteral("R");
            lis[1].label = QStringLiteral("A");
            ok = lis[0].up(true) && lis[1].up(true);
            if (!ok) {
                lis[0].up(false);
                lis[1].up(false);
            }
        }
    }
    QString addrOf(const QString &label) const
    {
        if (label == "R") {
            return name[0];
        }
        if (label == "A") {
            return name[1];
        }
        if (label == "L") {
            return kLocal;
        }
        if (label == "X") {
            return kOther;
        }
        return label;
    }
    QString labelOf(const QString &dom) const
    {
        if (dom == name[0]) {
            return QStringLiteral("R");
        }
        if (dom == name[1]) {
            return QStringLiteral("A");
        }
        if (dom == kLocal) {
            return QStringLiteral("L");
        }
        if (dom == kOther) {
            return QStringLiteral("X");
        }
        return dom.isEmpty() ? QStringLiteral("-") : QStringLiteral("?") + dom;
    }
};

class Recorder : public QXmppServerExtension
{
public:
    QStringList accepted;   // of the current step
    qint64 total = 0;
    const Net *net = nullptr;
    int extensionPriority() const override { return 1000; }
    bool handleStanza(const QDomElement &el) override
    {
        ++total;
        const QString from = el.attribute("from");
        accepted << (from.isEmpty() ? QStringLiteral("-") : net->labelOf(QXmppUtils::jidToDomain(from))) + ":" + el.firstChildElement("body").text();
        return true;
    }
};

struct World {
    Net &net;
    QXmppLogger logger;
    QXmppServer *server;
    Recorder *rec;
    S2sClient cli[NI];
    QList<S2sPeerConn *> conns;   // connections L made, in the order the listeners accepted them
    quint16 port = 0;
    qint64 logRecords = 0;
    int lookups = 0, lookupsDone = 0;
    QString ret = QStringLiteral("-");

    explicit World(Net &n) : net(n), server(new QXmppServer), rec(new Recorder)
    {
        logger.setLoggingType(QXmppLogger::SignalLogging);
        QObject::connect(&logger, &QXmppLogger::message, &logger, [this](QXmppLogger::MessageType, const QString &text) {
            ++logRecords;
            if (text.startsWith(QStringLiteral("Looking up server for domain"))) {
                ++lookups;
            } else if (text.startsWith(QStringLiteral("Connecting to "))) {
                ++lookupsDone;
            }
        });
        rec->net = &net;
        server->setDomain(kLocal);
        server->setLogger(&logger);
        server->addExtension(rec);
        for (auto &l : net.lis) {
            l.up(true);
            l.onAccept = [this](QTcpSocket *s, const QString &label) {
                auto *c = new S2sPeerConn;
                c->sock = s;
                c->dom = label;
                conns.append(c);
                QObject::connect(s, &QTcpSocket::readyRead, s, [c, s] { c->wire.feed(s->readAll()); });
                QObject::connect(s, &QTcpSocket::disconnected, s, [c] { c->closed = true; });
                if (s->bytesAvailable() > 0) {
                    c->wire.feed(s->readAll());
                }
            };
        }
    }
    ~World()
    {
        for (auto &l : net.lis) {
            l.onAccept = nullptr;
        }
        // harness sockets first, with a reset: no TIME_WAIT entries are left behind
        for (auto &c : cli) {
            c.sock.abort();
        }
        for (auto *c : conns) {
            c->sock->abort();
        }
        settle();
        delete server;
        qxvDrain();
        for (auto *c : conns) {
            c->sock->deleteLater();
            delete c;
        }
        qxvDrain();
    }

    bool listen()
    {
        bool ok = false;
        for (int attempt = 0; attempt < 600 && !ok; attempt++) {
            ok = server->listenForServers(QHostAddress::LocalHost, 0);
            if (!ok) {
                QThread::msleep(100);   // out of ephemeral ports: harness business, not an observation
            }
        }
        auto *tcp = server->findChild<QTcpServer *>();
        port = tcp ? tcp->serverPort() : 0;
        return ok && port != 0;
    }

    qint64 activity() const
    {
        qint64 a = logRecords + rec->total + conns.size();
        for (const auto &c : cli) {
            a += c.wire.bytes + (c.closed ? 1 : 0);
        }
        for (const auto *c : conns) {
            a += c->wire.bytes + (c->closed ? 1 : 0);
        }
        return a;
    }

    // Quiescence: every lookup the server started has finished, no socket of the world is connecting
    // or has anything in flight, every received byte has been split into complete elements, and
    // nothing observable changed in three consecutive rounds of the event loop.
    bool settle()
    {
        QElapsedTimer t;
        t.start();
        int idle = 0;
        qint64 last = activity();
        while (idle < 3) {
            if (t.elapsed() > 8000) {
                return false;
            }
            QCoreApplication::sendPostedEvents();
            QCoreApplication::sendPostedEvents(nullptr, QEvent::DeferredDelete);
            QCoreApplication::processEvents(QEventLoop::AllEvents, lookups != lookupsDone ? 2 : 0);
            bool quiet = lookups == lookupsDone, whole = true;
            for (auto &c : cli) {
                quiet = s2sSockQuiet(&c.sock) && quiet;
                whole = whole && c.wire.complete;
            }
            for (auto *c : conns) {
                quiet = s2sSockQuiet(c->sock) && quiet;
                whole = whole && c->wire.complete;
            }
            const auto socks = server->findChildren<QSslSocket *>();
            for (auto *s : socks) {
                quiet = s2sSockQuiet(s) && quiet;
            }
            qint64 a = activity();
            idle = (quiet && whole && a == last) ? idle + 1 : 0;
            last = a;
        }
        return true;
    }

    S2sPeerConn *conn(int k) { return k >= 1 && k <= conns.size() ? conns[k - 1] : nullptr; }
    S2sClient *client(int i) { return i >= 1 && i <= NI ? &cli[i - 1] : nullptr; }
    // the latest connection to domain d on which L presented a dialback key
    S2sPeerConn *keyed(const QString &d)
    {
        for (int k = conns.size() - 1; k >= 0; k--) {
            if (conns[k]->dom == d && !conns[k]->key.isEmpty()) {
                return conns[k];
            }
        }
        return nullptr;
    }

    QString idLabel(const QString &id) const
    {
        for (int i = 0; i < NI; i++) {
            if (!cli[i].sid.isEmpty() && cli[i].sid == id) {
                return QStringLiteral("s%1").arg(i + 1);
            }
        }
        return id.isEmpty() ? QStringLiteral("-") : QStringLiteral("?");
    }

    static QJsonObject el(const QString &t, const QString &a = {}, const QString &b = {}, const QString &c = {})
    {
        return QJsonObject { { "t", t }, { "a", a }, { "b", b }, { "c", c } };
    }
    // what L wrote to client i during the step: records [t,a,b,c]
    //   hdr | feat | end | other(a = kind)
    //   res  a = type, b = to, c = "" (or "from=<label>" if the element does not come from L)
    //   ver  a = type, b = "same"/"diff" (id equal to the id of the request of this step), c = to
    QJsonArray labelsIn(S2sClient &c, const QString &reqId)
    {
        QJsonArray r;
        for (const auto &e : c.wire.takeNew()) {
            const QString odd = e.from == kLocal ? QString() : QStringLiteral("from=") + net.labelOf(e.from);
            const QString type = e.type.isEmpty() ? QStringLiteral("-") : e.type;
            if (e.kind == "hdr") {
                c.sid = e.id;
                r.append(el("hdr"));
            } else if (e.kind == "feat") {
                r.append(el("feat"));
            } else if (e.kind == "result") {
                r.append(el("res", type, net.labelOf(e.to), odd));
            } else if (e.kind == "verify") {
                r.append(el("ver", type, (e.id == reqId ? QStringLiteral("same") : QStringLiteral("diff")) + odd, net.labelOf(e.to)));
            } else if (e.kind == "end") {
                r.append(el("end"));
            } else {
                r.append(el("other", e.kind));
            }
        }
        return r;
    }
    // what L wrote on a connection it made
    //   hdr  a = to (b = "from=<label>" if not from L)      end | other(a = kind)
    //   res  a = to, b = "key" (a key, no type, from L) / "odd"
    //   ver  a = "s<i>" (the id is the stream id L gave to client i) / "?" / "-", b = to, c = key text
    //   msg  a = body
    QJsonArray labelsOut(S2sPeerConn &c)
    {
        QJsonArray r;
        for (const auto &e : c.wire.takeNew()) {
            const QString odd = e.from == kLocal ? QString() : QStringLiteral("from=") + net.labelOf(e.from);
            if (e.kind == "hdr") {
                r.append(el("hdr", net.labelOf(e.to), odd));
            } else if (e.kind == "result") {
                const bool plain = e.type.isEmpty() && !e.text.isEmpty() && e.from == kLocal;
                if (plain) {
                    c.key = e.text;
                }
                r.append(el("res", net.labelOf(e.to), plain ? QStringLiteral("key") : QStringLiteral("odd")));
            } else if (e.kind == "verify") {
                c.askedId = e.id;
                r.append(el("ver", idLabel(e.id) + odd, net.labelOf(e.to), e.text));
            } else if (e.kind == "message") {
                r.append(el("msg", e.text));
            } else if (e.kind == "end") {
                r.append(el("end"));
            } else {
                r.append(el("other", e.kind));
            }
        }
        return r;
    }

    QJsonObject observe(const QString &reqId)
    {
        QJsonArray ins, oc;
        for (auto &c : cli) {
            ins.append(QJsonObject { { "rx", labelsIn(c, reqId) }, { "open", c.isOpen() } });
        }
        for (auto *c : conns) {
            oc.append(QJsonObject { { "dom", c->dom }, { "rx", labelsOut(*c) }, { "open", c->isOpen() } });
        }
        int ver = 0;
        const auto incs = server->findChildren<QXmppIncomingServer *>(QString(), Qt::FindDirectChildrenOnly);
        for (auto *in : incs) {
            ver += in->findChildren<QXmppOutgoingServer *>().size();
        }
        const auto outs = server->findChildren<QXmppOutgoingServer *>(QString(), Qt::FindDirectChildrenOnly);
        QJsonObject o { { "ins", ins }, { "oc", oc }, { "acc", jarr(rec->accepted) }, { "ret", ret },
                        { "cnt", QJsonObject { { "inc", incs.size() }, { "out", outs.size() }, { "ver", ver } } } };
        rec->accepted.clear();
        ret = QStringLiteral("-");
        return o;
    }
};

const QByteArray kNs = "xmlns='jabber:server' xmlns:db='jabber:server:dialback' xmlns:stream='http://etherx.jabber.org/streams'";

void runBehaviour(Ctx &ctx, Net &net, const QString &caseId, const QJsonArray &steps)
{
    ctx.reset(caseId);
    World w(net);
    if (!w.listen()) {
        ctx.emit_(QJsonObject { { "e", "Abort" }, { "what", "listenForServers failed" } });
        return;
    }
    for (const auto &sv : steps) {
        const QJsonObject s = sv.toObject();
        const QString a = s["a"].toString();
        QJsonObject ev = s;
        ev["e"] = a;
        QString reqId;
        if (a == "IOpen") {
            auto *c = w.client(s["i"].toInt());
            if (c && !c->used && c->connectTo(w.port)) {
                c->write("<?xml version='1.0'?><stream:stream " + kNs + " to='" + kLocal.toUtf8() + "' version='1.0'>");
            }
        } else if (a == "IResult") {
            auto *c = w.client(s["i"].toInt());
            const QString shape = s["shape"].toString();
            if (c) {
                c->write(QStringLiteral("<db:result from='%1' to='%2'%3>%4</db:result>")
                             .arg(net.addrOf(s["d"].toString()), shape == "wrongto" ? kOther : kLocal,
                                  shape == "typed" ? QStringLiteral(" type='valid'") : QString(),
                                  shape == "nokey" ? QString() : s["key"].toString())
                             .toUtf8());
            }
        } else if (a == "IVerifyReq") {
            auto *c = w.client(s["i"].toInt());
            auto *kc = w.keyed(s["d"].toString());
            reqId = s["idk"].toString() == "right" ? (kc ? kc->sid : QStringLiteral("nosid")) : QStringLiteral("bogus");
            const QString key = s["key"].toString() == "good" ? (kc ? kc->key : QStringLiteral("nokey")) : QStringLiteral("badkey");
            if (c) {
                c->write(QStringLiteral("<db:verify from='%1' to='%2' id='%3'>%4</db:verify>").arg(net.addrOf(s["d"].toString()), kLocal, reqId, key).toUtf8());
            }
        } else if (a == "IStanza") {
            auto *c = w.client(s["i"].toInt());
            const QString fd = s["fd"].toString();
            if (c) {
                c->write(QStringLiteral("<message%1 to='alice@%2' type='chat'><body>s%3</body></message>")
                             .arg(fd == "none" ? QString() : QStringLiteral(" from='eve@%1/x'").arg(net.addrOf(fd)), kLocal)
                             .arg(s["n"].toInt())
                             .toUtf8());
            }
        } else if (a == "IWs") {
            if (auto *c = w.client(s["i"].toInt())) {
                c->write(" ");
            }
        } else if (a == "IClose") {
            if (auto *c = w.client(s["i"].toInt())) {
                if (s["how"].toString() == "end") {
                    c->write("</stream:stream>");
                } else {
                    c->sock.abort();
                }
            }
        } else if (a == "Listen") {
            const int idx = s["d"].toString() == "R" ? 0 : 1;
            if (!net.lis[idx].up(s["up"].toBool())) {
                ctx.emit_(QJsonObject { { "e", "Abort" }, { "what", "listener of a remote domain cannot listen" } });
                return;
            }
        } else if (a == "Send") {
            QXmppMessage m(QStringLiteral("alice@") + kLocal, QStringLiteral("bob@") + net.addrOf(s["d"].toString()), QStringLiteral("m%1").arg(s["n"].toInt()));
            w.ret = w.server->sendPacket(m) ? QStringLiteral("t") : QStringLiteral("f");
        } else if (a == "OHeader") {
            if (auto *c = w.conn(s["k"].toInt())) {
                c->sid = QStringLiteral("sid%1").arg(s["k"].toInt());
                c->write("<?xml version='1.0'?><stream:stream " + kNs + " from='" + net.addrOf(c->dom).toUtf8() + "' id='" + c->sid.toUtf8() + "' version='1.0'><stream:features/>");
            }
        } else if (a == "OVerifyAns") {
            if (auto *c = w.conn(s["k"].toInt())) {
                const QString id = s["idk"].toString() == "right" ? (c->askedId.isEmpty() ? QStringLiteral("none") : c->askedId) : QStringLiteral("bogus");
                c->write(QStringLiteral("<db:verify from='%1' to='%2' id='%3' type='%4'/>").arg(net.addrOf(s["from"].toString()), net.addrOf(s["to"].toString()), id, s["ty"].toString()).toUtf8());
            }
        } else if (a == "OResult") {
            if (auto *c = w.conn(s["k"].toInt())) {
                c->write(QStringLiteral("<db:result from='%1' to='%2' type='%3'/>").arg(net.addrOf(s["from"].toString()), net.addrOf(s["to"].toString()), s["ty"].toString()).toUtf8());
            }
        } else if (a == "OStanza") {
            if (auto *c = w.conn(s["k"].toInt())) {
                c->write(QStringLiteral("<message from='bob@%1' to='alice@%2' type='chat'><body>back</body></message>").arg(net.addrOf(c->dom), kLocal).toUtf8());
            }
        } else if (a == "OClose") {
            if (auto *c = w.conn(s["k"].toInt())) {
                c->sock->disconnectFromHost();
            }
        } else {
            fprintf(stderr, "s2s: unknown step %s\n", qPrintable(a));
            exit(2);
        }
        if (!w.settle()) {
            ctx.emit_(QJsonObject { { "e", "Abort" }, { "what", "no quiescence after " + a } });
            return;
        }
        ev["o"] = w.observe(reqId);
        ctx.emit_(ev);
    }
}

}  // namespace

QXV_DRIVER(s2s)
{
    Net net;
    if (!net.ok) {
        fprintf(stderr, "s2s: cannot listen on two loopback addresses, port 5269\n");
        return 2;
    }
    auto behs = ctx.behaviours();
    int n = 0;
    for (const auto &bv : behs) {
        runBehaviour(ctx, net, QString("m%1").arg(++n), bv.toObject()["steps"].toArray());
        // every execution starts with both remote servers up
        net.lis[0].up(true);
        net.lis[1].up(true);
    }
    return 0;
}
