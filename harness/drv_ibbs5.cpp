// qxv ibbs5 — SOCKS5 bytestream transfers (XEP-0065, direct connection) between two real
// QXmppTransferManagers.  Signalling (SI offer/result, bytestream offer, streamhost-used) is relayed
// in memory like in `qxv ibb`; the bytes travel over real loopback TCP through a forwarding proxy
// inside the harness (the stream host offered to the receiver is rewritten to point at it), which
// applies the behaviour's fault to the data part of the sender->receiver stream.
//
// Behaviour: {"n":5,"size":20000,"unit":4000,"cseed":7,"steps":[{"a":"Start"},{"a":"SWrite"},...,
//             {"a":"Fault","k":"Flip|Drop|Dup|Swap|Cut","u":3},...]}   (a behaviour of spec/IbbS5.tla)
// The fault hits unit u of the stream (a unit is `unit` bytes): u-1 units pass untouched.
// The sockets cannot be single-stepped, so an execution is: start, run to rest, log the outcome
// ("End" line, same observation fields as `qxv ibb`).  Rest = both jobs finished and nothing in
// flight, or `idle` consecutive event-loop rounds (each waits up to 50 ms for an event) in which
// nothing at all happened: no stanza, no byte through the proxy, no state change — counted in
// rounds of this process, not in wall-clock time, so a starved process does not look stalled.
#include "ibb_device.h"
#include "relay.h"

#include <QCryptographicHash>
#include <QElapsedTimer>
#include <QHostAddress>
#include <QPointer>
#include <QTcpServer>
#include <QTcpSocket>
#include <QTimer>

#include <memory>

namespace {

const QString kA = QStringLiteral("alice@example.org/s");
const QString kB = QStringLiteral("bob@example.org/r");

struct Fault {
    QString k = "none";
    qint64 at = 0;    // data offset (bytes) where the fault starts
    qint64 len = 0;   // bytes affected (unit)
    quint64 bitSeed = 0;
};

// Forwards one TCP connection; tampers with the upstream->client direction after the SOCKS5
// handshake (2 bytes method selection + reply of 7 + host length bytes).
struct Proxy {
    QTcpServer server;
    QPointer<QTcpSocket> client, upstream;
    QString upHost;
    quint16 upPort = 0;
    Fault fault;
    QByteArray toUpstream;   // client bytes received before the upstream connection stands
    QByteArray hs;           // handshake bytes seen from upstream
    qint64 hsLen = -1;
    QByteArray pending;      // data bytes not yet forwarded
    qint64 forwarded = 0;    // data bytes forwarded to the client (after tampering)
    qint64 seen = 0;         // data bytes received from upstream
    bool applied = false, cut = false, upClosed = false;
    qint64 activity = 0;
    qint64 total = 0;        // size of the file

    Proxy()
    {
        server.listen(QHostAddress::LocalHost, 0);
        QObject::connect(&server, &QTcpServer::newConnection, &server, [this]() { accept(); });
    }

    void accept()
    {
        auto *c = server.nextPendingConnection();
        if (client) {  // one connection per execution
            c->close();
            c->deleteLater();
            return;
        }
        ++activity;
        client = c;
        upstream = new QTcpSocket(&server);
        QObject::connect(upstream.data(), &QTcpSocket::connected, &server, [this]() {
            ++activity;
            if (!toUpstream.isEmpty()) {
                upstream->write(toUpstream);
                toUpstream.clear();
            }
        });
        QObject::connect(client.data(), &QTcpSocket::readyRead, &server, [this]() {
            ++activity;
            auto d = client->readAll();
            if (upstream && upstream->state() == QAbstractSocket::ConnectedState) {
                upstream->write(d);
            } else {
                toUpstream += d;
            }
        });
        QObject::connect(upstream.data(), &QTcpSocket::readyRead, &server, [this]() {
            ++activity;
            fromUpstream(upstream->readAll());
        });
        QObject::connect(upstream.data(), &QTcpSocket::disconnected, &server, [this]() {
            ++activity;
            upClosed = true;
            pump();
            if (client) {
                client->disconnectFromHost();
            }
        });
        QObject::connect(client.data(), &QTcpSocket::disconnected, &server, [this]() {
            ++activity;
            if (upstream) {
                upstream->disconnectFromHost();
            }
        });
        upstream->connectToHost(upHost, upPort);
    }

    void fromUpstream(QByteArray d)
    {
        if (hsLen < 0 || hs.size() < hsLen) {
            // handshake: passed through untouched
            while (!d.isEmpty() && (hsLen < 0 || hs.size() < hsLen)) {
                hs.append(d.at(0));
                d.remove(0, 1);
                if (hsLen < 0 && hs.size() >= 7) {
                    hsLen = 2 + 3 + 2 + quint8(hs.at(6)) + 2;
                }
            }
        }
        flushHandshake();
        if (!d.isEmpty()) {
            seen += d.size();
            pending += d;
        }
        pump();
    }

    qint64 hsSent = 0;
    void flushHandshake()
    {
        if (client && hsSent < hs.size()) {
            client->write(hs.mid(int(hsSent)));
            hsSent = hs.size();
        }
    }

    void forward(const QByteArray &d)
    {
        if (client && !cut && !d.isEmpty()) {
            client->write(d);
            forwarded += d.size();
        }
    }

    // forward what can be forwarded; the fault needs its whole region (or the end of the stream)
    void pump()
    {
        if (cut) {
            pending.clear();
            return;
        }
        if (fault.k == "none" || applied) {
            forward(pending);
            pending.clear();
            return;
        }
        const qint64 base = seen - pending.size();   // stream offset of pending[0]
        if (base < fault.at) {
            const qint64 n = qMin<qint64>(pending.size(), fault.at - base);
            forward(pending.left(int(n)));
            pending.remove(0, int(n));
        }
        if (seen - pending.size() < fault.at) {
            return;
        }
        if (pending.isEmpty()) {
            return;   // the unit the fault hits has not arrived yet
        }
        if (fault.k == "Cut") {
            applied = true;
            cut = true;
            pending.clear();
            if (client) {
                client->disconnectFromHost();
            }
            if (upstream) {
                upstream->abort();
            }
            return;
        }
        // the unit hit (and for Swap the one behind it); the last unit of the file may be short
        const qint64 l1 = qMax<qint64>(0, qMin(fault.len, total - fault.at));
        const qint64 l2 = qMax<qint64>(0, qMin(fault.len, total - fault.at - l1));
        const qint64 need = fault.k == "Swap" ? l1 + l2 : (fault.k == "Flip" ? 1 : l1);
        if (pending.size() < need || need == 0) {
            if (upClosed) {   // the stream ended before the region was complete: nothing to damage
                forward(pending);
                pending.clear();
            }
            return;
        }
        applied = true;
        if (fault.k == "Flip") {
            const int i = int(fault.bitSeed % quint64(qMin<qint64>(pending.size(), l1)));
            pending[i] = char(pending[i] ^ (1 << (fault.bitSeed / 7 % 8)));
        } else if (fault.k == "Drop") {
            pending.remove(0, int(l1));
        } else if (fault.k == "Dup") {
            pending.insert(0, pending.left(int(l1)));
        } else if (fault.k == "Swap") {
            const auto first = pending.left(int(l1));
            pending.remove(0, int(l1));
            pending.insert(int(l2), first);
        }
        forward(pending);
        pending.clear();
    }
};

void runS5(Ctx &ctx, const QString &caseId, const QJsonObject &beh, int idx)
{
    const qint64 size = qint64(beh["size"].toDouble());
    const qint64 unit = qMax<qint64>(1, qint64(beh["unit"].toDouble(4096)));
    const quint64 seed = beh.contains("cseed") ? quint64(beh["cseed"].toDouble()) : ctx.seed * 1000003ULL + quint64(idx);
    const int idleRounds = beh["idle"].toInt(ctx.optInt("idle", 60));
    // the fault of the class: the first Fault step of the model behaviour ("u": unit it hits),
    // or an explicit {"fault":{"k":..,"at":..}}
    auto fo = beh["fault"].toObject();
    const auto steps = beh["steps"].toArray();
    for (const auto &sv : steps) {
        const auto st = sv.toObject();
        if (st["a"].toString() == "Fault") {
            fo = QJsonObject { { "k", st["k"].toString() }, { "at", st["u"].toInt() - 1 } };
            break;
        }
    }
    QByteArray file = randomBytes(size, seed);
    {
        // Swap exchanges unit u with the unit behind it: with equal contents (likely for 1-byte
        // units) that would be no fault at all, so make the two differ
        const qint64 at = qint64(fo["at"].toDouble()) * unit;
        if (fo["k"].toString() == "Swap" && at + unit < size && file.mid(int(at), int(unit)) == file.mid(int(at + unit), int(unit))) {
            file[int(at + unit)] = char(file[int(at + unit)] ^ 1);
        }
    }

    Proxy proxy;
    proxy.fault.k = fo["k"].toString("none");
    proxy.fault.at = qint64(fo["at"].toDouble()) * unit;
    proxy.fault.len = unit;
    proxy.total = size;
    proxy.fault.bitSeed = seed >> 3;

    const QString ann = beh["ann"].toString("both");
    const QString dev = beh["dev"].toString("all");   // the receiver's output device (harness/ibb_device.h), misbehaving at its first write
    ctx.reset(caseId, { { "size", double(size) }, { "unit", double(unit) }, { "n", double((size + unit - 1) / unit) },
                        { "k", proxy.fault.k }, { "at", fo["at"].toInt() }, { "ann", ann }, { "dev", dev } });

    // the model behaviour this execution stands for, echoed for the trace specification
    for (const auto &sv : steps) {
        auto st = sv.toObject();
        if (st["a"].toString() == "ForeignOffer") {
            continue;   // logged with its observation when it happens
        }
        st["e"] = st["a"];
        st.remove("a");
        ctx.emit_(st);
    }

    QBuffer sendBuf;
    FaultyBuffer recvBuf;
    recvBuf.mode = dev;
    recvBuf.at = dev == "all" ? 0 : 1;
    TestClient::resetIdCounter();
    auto a = std::make_unique<TestClient>(TestClient::NoExtensions, kA);
    auto b = std::make_unique<TestClient>(TestClient::NoExtensions, kB);
    isolateLogger(a.get());
    isolateLogger(b.get());
    a->fakeSession(false);
    b->fakeSession(false);
    auto *ma = new QXmppTransferManager;
    auto *mb = new QXmppTransferManager;
    ma->setSupportedMethods(QXmppTransferJob::SocksMethod);
    mb->setSupportedMethods(QXmppTransferJob::SocksMethod);
    a->addExtension(ma);
    b->addExtension(mb);
    QPointer<QXmppTransferJob> sJob, rJob;
    int rFin = 0, sFin = 0;
    const QString acceptHow = beh["accept"].toString("device"), destPath = beh["dest"].toString();
    if (acceptHow != "device") {
        prepareDestination(acceptHow, destPath, size, seed);
    }
    QObject::connect(mb, &QXmppTransferManager::fileReceived, mb, [&](QXmppTransferJob *job) {
        if (rJob) {
            return;
        }
        rJob = job;
        QObject::connect(job, &QXmppTransferJob::finished, job, [&]() { ++rFin; });
        if (acceptHow == "device") {
            recvBuf.open(QIODevice::WriteOnly);
            job->accept(&recvBuf);
        } else {
            job->accept(destPath);
        }
    });

    sendBuf.setData(file);
    sendBuf.open(QIODevice::ReadOnly);
    QXmppTransferFileInfo info;
    info.setName("c19.bin");
    if (ann == "both" || ann == "size") {
        info.setSize(file.size());
    }
    if (ann == "both" || ann == "hash") {
        info.setHash(QCryptographicHash::hash(file, QCryptographicHash::Md5));
    }
    sJob = ma->sendFile(kB, &sendBuf, info, QStringLiteral("sid-c19-s5"));
    if (sJob) {
        QObject::connect(sJob.data(), &QXmppTransferJob::finished, sJob.data(), [&]() { ++sFin; });
    }

    auto stateKey = [&]() {
        return QString("%1/%2/%3/%4/%5")
            .arg(sJob ? int(sJob->state()) : -1)
            .arg(rJob ? int(rJob->state()) : -1)
            .arg(recvBuf.size())
            .arg(proxy.forwarded)
            .arg(proxy.activity);
    };

    QTimer tick;
    tick.setSingleShot(true);
    // a listening socket nobody should ever connect to: the stream host of the foreign offer
    QTcpServer trap;
    int trapHits = 0;
    trap.listen(QHostAddress::LocalHost, 0);
    QObject::connect(&trap, &QTcpServer::newConnection, &trap, [&]() {
        while (auto *c = trap.nextPendingConnection()) {
            ++trapHits;
            c->close();
            c->deleteLater();
        }
    });
    const QString foreign = beh["foreign"].toString();
    bool foreignDone = false;
    int stanzas = 0, idle = 0, rounds = 0;
    bool rewrote = false;
    QString last = stateKey();
    QElapsedTimer wall;
    wall.start();
    while (idle < idleRounds && wall.elapsed() < 120000) {
        ++rounds;
        bool moved = false;
        for (const auto &xml : a->takeSent()) {
            auto doc = qxvParseStream(xml);
            auto el = doc.documentElement().firstChildElement();
            el.setAttribute("from", kA);
            auto q = el.firstChildElement("query");
            if (!q.isNull() && q.namespaceURI() == "http://jabber.org/protocol/bytestreams" && el.attribute("type") == "set") {
                if (!foreign.isEmpty() && !foreignDone) {
                    // just before the genuine stream host offer arrives: the same offer (right session id)
                    // from a foreign full JID, pointing at the trap.  It must be refused and change nothing.
                    foreignDone = true;
                    const QString fjid = foreign == "res" ? QStringLiteral("alice@example.org/other") : QStringLiteral("mallory@example.org/x");
                    auto fdoc = qxvParseStream(xml);
                    auto fel = fdoc.documentElement().firstChildElement();
                    fel.setAttribute("from", fjid);
                    fel.setAttribute("id", "forged-bytestreams");
                    for (auto sh = fel.firstChildElement("query").firstChildElement("streamhost"); !sh.isNull(); sh = sh.nextSiblingElement("streamhost")) {
                        sh.setAttribute("host", "127.0.0.1");
                        sh.setAttribute("port", QString::number(trap.serverPort()));
                        sh.setAttribute("jid", fjid);
                    }
                    const QString rs0 = rJob ? stateName(rJob->state()) : QStringLiteral("None");
                    const QString re0 = rJob ? errorName(rJob->error()) : QStringLiteral("NoError");
                    b->injectElement(fel);
                    for (int i = 0; i < 5; i++) {
                        tick.start(20);
                        QCoreApplication::processEvents(QEventLoop::AllEvents | QEventLoop::WaitForMoreEvents);
                    }
                    QString reply = "none";
                    for (const auto &rx : b->takeSent()) {
                        auto rdoc = qxvParseStream(rx);
                        auto rel = rdoc.documentElement().firstChildElement();
                        if (rel.attribute("to") == fjid) {
                            reply = rel.attribute("type") == "error" ? "err" : (rel.attribute("type") == "result" ? "res" : "other");
                        } else {
                            rel.setAttribute("from", kB);
                            a->injectElement(rel);
                        }
                    }
                    ctx.emit_({ { "e", "ForeignOffer" }, { "w", foreign },
                                { "o", QJsonObject { { "reply", reply }, { "rs0", rs0 }, { "re0", re0 },
                                                     { "rs", rJob ? stateName(rJob->state()) : QStringLiteral("None") },
                                                     { "re", rJob ? errorName(rJob->error()) : QStringLiteral("NoError") },
                                                     { "trap", trapHits } } } });
                }
                // keep one stream host and point it at the proxy
                bool first = true;
                for (auto sh = q.firstChildElement("streamhost"); !sh.isNull();) {
                    auto next = sh.nextSiblingElement("streamhost");
                    if (first) {
                        proxy.upHost = "127.0.0.1";
                        proxy.upPort = quint16(sh.attribute("port").toUInt());
                        sh.setAttribute("host", "127.0.0.1");
                        sh.setAttribute("port", QString::number(proxy.server.serverPort()));
                        first = false;
                        rewrote = true;
                    } else {
                        q.removeChild(sh);
                    }
                    sh = next;
                }
            }
            b->injectElement(el);
            ++stanzas;
            moved = true;
        }
        for (const auto &xml : b->takeSent()) {
            auto doc = qxvParseStream(xml);
            auto el = doc.documentElement().firstChildElement();
            el.setAttribute("from", kB);
            a->injectElement(el);
            ++stanzas;
            moved = true;
        }
        // one round: block until something happens (socket, posted event) or 50 ms have passed
        tick.start(50);
        QCoreApplication::processEvents(QEventLoop::AllEvents | QEventLoop::WaitForMoreEvents);
        QCoreApplication::processEvents();
        const auto now = stateKey();
        const bool bothDone = sJob && rJob && sJob->state() == QXmppTransferJob::FinishedState &&
            rJob->state() == QXmppTransferJob::FinishedState;
        if (moved || now != last) {
            idle = 0;
        } else {
            idle += bothDone ? 20 : 1;   // finished on both sides: a few quiet rounds are enough
        }
        last = now;
    }
    for (int i = 0; i < 3; i++) {
        QCoreApplication::sendPostedEvents();
        QCoreApplication::processEvents();
    }

    const auto got = acceptHow == "device" ? recvBuf.data() : readDestination(rJob.data(), destPath);
    QJsonObject o {
        { "rs", rJob ? stateName(rJob->state()) : QStringLiteral("None") },
        { "re", rJob ? errorName(rJob->error()) : QStringLiteral("NoError") },
        { "ss", sJob ? stateName(sJob->state()) : QStringLiteral("Idle") },
        { "se", sJob ? errorName(sJob->error()) : QStringLiteral("NoError") },
        { "eq", int(got == file) },
        { "rlen", double(got.size()) },
        { "slen", double(file.size()) },
        { "rsha", QString::fromLatin1(QCryptographicHash::hash(got, QCryptographicHash::Sha1).toHex()) },
        { "ssha", QString::fromLatin1(QCryptographicHash::hash(file, QCryptographicHash::Sha1).toHex()) },
        { "rfin", rFin },
        { "sfin", sFin },
        { "applied", proxy.applied },
        { "trap", trapHits },
        { "ann", ann },
        { "dev", dev },
        { "devbad", recvBuf.misbehaved },
        { "accept", acceptHow },
        { "k", proxy.fault.k },
        { "fwd", double(proxy.forwarded) },
        { "seen", double(proxy.seen) },
        { "stanzas", stanzas },
        { "rounds", rounds },
        { "proxied", rewrote && !proxy.hs.isEmpty() },
        { "timeout", wall.elapsed() >= 120000 },
    };
    ctx.emit_({ { "e", "End" }, { "o", o } });
}

}  // namespace

QXV_DRIVER(ibbs5)
{
    auto behs = ctx.behaviours();
    int n = 0;
    for (const auto &bv : behs) {
        ++n;
        runS5(ctx, QString("s%1").arg(n), bv.toObject(), n);
    }
    return 0;
}
