// Scripted raw TCP *client* side of a loopback connection (mirror image of LoopPeer in
// loopback.h): writes exactly the bytes the script says, collects everything the server sends
// and projects it into abstract records (one per top-level element of the XML stream).
// Used by drv_server.cpp (C16). No wall-clock ordering: waiting is always for a condition.
#pragma once

#include "loopback.h"

#include <QDomDocument>
#include <QJsonArray>
#include <QJsonObject>
#include <QRegularExpression>
#include <QTcpSocket>

// {"u":user,"d":domain,"r":resource, "rr":raw resource, "at":bool, "sl":bool}; an absent/empty
// attribute is three empty strings. u/d/r are what the model talks about: resources assigned by the
// server with a random suffix (Bind 2: "<tag>.<8 random chars>") are normalised to "<tag>.#" in r.
// (u, at, d, sl, rr) is a lossless decomposition of the string (string = u [@] d [/] rr with "at"/"sl"
// saying whether the separator is present), so that the monitor can compare an address exactly:
// "a@b/" differs from "a@b" in sl, "b" from "@b" in at, and case is kept as received.
inline QJsonObject qxvJid(const QString &jid)
{
    QString bare = jid, r;
    int slash = jid.indexOf('/');
    if (slash >= 0) {
        bare = jid.left(slash);
        r = jid.mid(slash + 1);
    }
    const QString rr = r;
    QString u, d = bare;
    int at = bare.indexOf('@');
    if (at >= 0) {
        u = bare.left(at);
        d = bare.mid(at + 1);
    }
    static const QRegularExpression rnd(QStringLiteral("^([A-Za-z0-9]+)\\.[A-Za-z0-9]{8}$"));
    auto m = rnd.match(r);
    if (m.hasMatch()) {
        r = m.captured(1) + QStringLiteral(".#");
    }
    return QJsonObject { { "u", u }, { "d", d }, { "r", r }, { "rr", rr }, { "at", at >= 0 }, { "sl", slash >= 0 } };
}

class RawClient : public QObject
{
public:
    RawClient()
    {
        QObject::connect(&sock, &QTcpSocket::readyRead, this, [this]() {
            auto d = sock.readAll();
            rx += d;
            rxTotal += d.size();
        });
        QObject::connect(&sock, &QTcpSocket::disconnected, this, [this]() { closed = true; });
    }

    bool connectTo(quint16 port, int ms = 3000)
    {
        sock.setSocketOption(QAbstractSocket::LowDelayOption, 1);
        sock.connectToHost(QHostAddress::LocalHost, port);
        return qxvSpin([&] { return sock.state() == QAbstractSocket::ConnectedState || closed; }, ms) && isOpen();
    }
    bool isOpen() const { return sock.state() == QAbstractSocket::ConnectedState; }
    void send(const QByteArray &data)
    {
        if (isOpen()) {
            sock.write(data);
            sock.flush();
        }
    }

    // Project what has been received; returns false while the tail is not yet a complete
    // element (more bytes are on their way). `out` gets one record per top-level element so far:
    // k  header|features|streamerror|close|failure|failure2|challenge|challenge2|success|success2|
    //    iq|message|presence|other
    // t  type attribute (stanzas) / "mechs"|"post" (features) / "bound" (success2 with <bound/>)
    // c  error or failure condition; id, f (from), to, j (bind result jid / authorization id)
    // Incremental: bytes that formed complete elements are consumed from the buffer.
    bool project(QJsonArray &out)
    {
        if (parsedAt != rxTotal) {
            parsedAt = rxTotal;
            tail += QString::fromUtf8(rx);
            rx.clear();
            tailOk = consume();
        }
        out = recs;
        return tailOk;
    }
    bool consume()
    {
        static const QRegularExpression hdr(QStringLiteral("^\\s*(<\\?xml[^>]*\\?>)?\\s*<stream:stream[^>]*>"));
        static const QString open = QStringLiteral("<stream:stream xmlns='jabber:client' xmlns:stream='http://etherx.jabber.org/streams'>");
        while (!tail.trimmed().isEmpty()) {
            // every stream the server starts begins with an XML declaration
            if (tail.trimmed().startsWith(QStringLiteral("<?xml")) || tail.trimmed().startsWith(QStringLiteral("<stream:stream"))) {
                auto m = hdr.match(tail);
                if (!m.hasMatch()) {
                    return false;  // header not complete yet
                }
                recs.append(rec("header"));
                tail = tail.mid(m.capturedLength());
                continue;
            }
            int nx = tail.indexOf(QStringLiteral("<?xml"));
            QString seg = nx < 0 ? tail : tail.left(nx);
            QString body = seg.trimmed();
            bool close = false;
            if (body.endsWith(QStringLiteral("</stream:stream>"))) {
                close = true;
                body.chop(16);
            }
            QDomDocument doc;
            if (!doc.setContent(open + body + QStringLiteral("</stream:stream>"), true)) {
                return false;
            }
            for (auto el = doc.documentElement().firstChildElement(); !el.isNull(); el = el.nextSiblingElement()) {
                recs.append(projectElement(el));
            }
            if (close) {
                recs.append(rec("close"));
            }
            tail = nx < 0 ? QString() : tail.mid(nx);
        }
        return true;
    }

    // records that appeared since the last call (waits for a complete tail is the caller's job)
    QJsonArray takeNew(bool *complete = nullptr)
    {
        QJsonArray allRecs;
        bool ok = project(allRecs);
        if (complete) {
            *complete = ok;
        }
        QJsonArray r;
        if (!ok) {
            return r;
        }
        for (int i = reported; i < allRecs.size(); i++) {
            r.append(allRecs.at(i));
        }
        reported = allRecs.size();
        return r;
    }

    static QJsonObject rec(const QString &k)
    {
        return QJsonObject { { "k", k }, { "t", "" }, { "c", "" }, { "id", "" }, { "f", qxvJid({}) }, { "to", qxvJid({}) }, { "j", qxvJid({}) } };
    }

    QJsonObject projectElement(const QDomElement &el)
    {
        const QString ns = el.namespaceURI(), tag = el.tagName();
        static const QString nsStream = QStringLiteral("http://etherx.jabber.org/streams");
        static const QString nsSasl = QStringLiteral("urn:ietf:params:xml:ns:xmpp-sasl");
        static const QString nsSasl2 = QStringLiteral("urn:xmpp:sasl:2");
        static const QString nsClient = QStringLiteral("jabber:client");
        auto firstChildTag = [](const QDomElement &e) { return e.firstChildElement().tagName(); };
        if (ns == nsStream && tag == "features") {
            auto r = rec("features");
            bool mechs = false;
            for (auto c = el.firstChildElement(); !c.isNull(); c = c.nextSiblingElement()) {
                if (c.tagName() == "mechanisms" || c.tagName() == "authentication") {
                    mechs = true;
                }
            }
            r["t"] = mechs ? "mechs" : "post";
            return r;
        }
        if (ns == nsStream && tag == "error") {
            auto r = rec("streamerror");
            r["c"] = firstChildTag(el);
            return r;
        }
        if (ns == nsSasl || ns == nsSasl2) {
            const QString sfx = ns == nsSasl2 ? QStringLiteral("2") : QString();
            if (tag == "failure") {
                auto r = rec("failure" + sfx);
                r["c"] = firstChildTag(el);
                return r;
            }
            if (tag == "challenge") {
                lastChallenge = QByteArray::fromBase64(el.text().toLatin1());
                ++challenges;
                return rec("challenge" + sfx);
            }
            if (tag == "success") {
                auto r = rec("success" + sfx);
                if (ns == nsSasl2) {
                    lastJid = el.firstChildElement("authorization-identifier").text();
                    r["j"] = qxvJid(lastJid);
                    if (!el.firstChildElement("bound").isNull()) {
                        r["t"] = "bound";
                    }
                }
                return r;
            }
            return rec("other");
        }
        if (ns == nsClient && (tag == "iq" || tag == "message" || tag == "presence")) {
            auto r = rec(tag);
            r["t"] = el.attribute("type");
            r["id"] = el.attribute("id");
            r["f"] = qxvJid(el.attribute("from"));
            r["to"] = qxvJid(el.attribute("to"));
            if (tag == "iq") {
                auto bind = el.firstChildElement("bind");
                if (!bind.isNull() && bind.namespaceURI() == "urn:ietf:params:xml:ns:xmpp-bind") {
                    lastJid = bind.firstChildElement("jid").text();
                    r["j"] = qxvJid(lastJid);
                    r["c"] = "bind";
                }
                auto err = el.firstChildElement("error");
                if (!err.isNull()) {
                    r["c"] = firstChildTag(err);
                }
            }
            return r;
        }
        return rec("other");
    }

    QTcpSocket sock;
    QByteArray rx;
    qint64 rxTotal = 0;
    bool closed = false;
    int reported = 0;
    QByteArray lastChallenge;  // decoded payload of the last <challenge/> seen by project()
    int challenges = 0;
    qint64 parsedAt = 0;       // rxTotal up to which bytes have been moved into `tail`
    QString tail;              // received text not yet forming complete elements
    bool tailOk = true;
    QJsonArray recs;           // all records so far
    QString lastJid;           // un-normalised address the server last reported (bind result / SASL 2 success)
};
