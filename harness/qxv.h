// qxv — conformance harness: drives real qxmpp objects along behaviours of the
// TLA+ specifications in /verif/spec and records what the implementation did as
// an ndjson trace (one JSON object per line, "e" = spec action name) that the
// <M>Trace.tla specifications validate.
#pragma once

#include <QByteArray>
#include <QFile>
#include <QJsonArray>
#include <QJsonDocument>
#include <QJsonObject>
#include <QMap>
#include <QString>
#include <QStringList>
#include <QVector>

#include <cstdint>
#include <functional>
#include <random>

struct Ctx {
    QString driver;
    QString inPath;             // behaviours (ndjson), may be empty
    QString outPath;            // trace (ndjson)
    QString tier = "quick";
    quint64 seed = 1;
    QMap<QString, QString> opt; // --key=value extras
    QFile out;
    std::mt19937_64 rng;
    qint64 lines = 0;
    qint64 cases = 0;

    // One trace line.
    void emit_(const QJsonObject &o);
    // Start a new execution ("Reset" line). Extra fields are merged in.
    void reset(const QString &caseId, QJsonObject extra = {});
    // All behaviours of the input file, one JSON value per line.
    QVector<QJsonValue> behaviours() const;
    int optInt(const QString &k, int dflt) const { return opt.contains(k) ? opt[k].toInt() : dflt; }
    quint64 rnd(quint64 n) { return n ? rng() % n : 0; }
};

using DriverFn = int (*)(Ctx &);
struct DriverReg {
    DriverReg(const char *name, DriverFn fn);
};
#define QXV_DRIVER(NAME)                               \
    static int qxv_drv_##NAME(Ctx &ctx);               \
    static DriverReg qxv_reg_##NAME(#NAME, qxv_drv_##NAME); \
    static int qxv_drv_##NAME(Ctx &ctx)

// helpers
QJsonArray jarr(const QStringList &l);
