// codec_fields.h — objects built through setters (C01, first clause): for every registered type a
// table of fields, one line per field: how to set it from a plan value and how to read it back.
// `qxv codec` builds an object along a plan of spec/Codec.tla (slot -> Absent | character class),
// serializes it, parses the result into a fresh object and compares getter by getter, then
// serializes again (same XML) and compares the element structure with the one obtained for plain
// values (no markup injection).
//
// Kinds of fields:
//   STR     free text (QString): the plan's character class chooses the string
//   BYTES   QByteArray carried as base64
//   BOOL / INT(type) / ENUM(type, count) / DT: typed fields; the class index walks through the
//           type's lexical range (both booleans, the integer bounds of the C++ type, every
//           enumerator, date-times with and without milliseconds)
#pragma once

#include "codec_registry.h"
#include "codec_xml.h"
#include "qxv.h"

#include "QXmppUtils.h"
#include "QXmppUtils_p.h"

#include <QDateTime>
#include <QJsonArray>
#include <QJsonObject>
#include <QTimeZone>

#include <limits>

struct PlanValue {
    int cls = -1;   // -1 absent, else index into the class list of Codec.tla
    QString str;    // a string of that class (non-blank, no white space at the edges)
    QString plain;  // a plain string for the same field (structure baseline)
    int idx = 0;    // walks through the range of typed fields
    int shape = -1; // list-valued fields: which member of the list lattice (-1: idx chooses)
};

struct ObjectType {
    QString name;
    QStringList fields;
    QStringList kinds;
    // vals.size() == fields.size(); plainText: replace free-text values by plain ones (baseline)
    std::function<QJsonObject(const QVector<PlanValue> &vals, bool logGetters)> run;
};

namespace qxvfields {

inline const QList<QDateTime> &dateTimes()
{
    static const QList<QDateTime> l {
        QDateTime(QDate(2023, 5, 17), QTime(12, 34, 56), Qt::UTC),
        QDateTime(QDate(2023, 5, 17), QTime(12, 34, 56, 789), Qt::UTC),
        QDateTime(QDate(1970, 1, 1), QTime(0, 0, 0), Qt::UTC),
        QDateTime(QDate(2038, 1, 19), QTime(3, 14, 8, 1), Qt::UTC),
        QDateTime(QDate(1999, 12, 31), QTime(23, 59, 59, 999), Qt::UTC),
        QDateTime(QDate(2024, 2, 29), QTime(0, 0, 0, 10), Qt::UTC),
        QDateTime(QDate(2106, 2, 7), QTime(6, 28, 16), Qt::UTC),
        QDateTime(QDate(1969, 12, 31), QTime(23, 59, 59), Qt::UTC),
        QDateTime(QDate(2023, 5, 17), QTime(12, 34, 56, 700), Qt::UTC),
        QDateTime(QDate(2000, 1, 1), QTime(0, 0, 0, 1), Qt::UTC),
        QDateTime(QDate(2000, 12, 31), QTime(23, 59, 59, 999), Qt::UTC),
        QDateTime(QDate(2001, 1, 1), QTime(0, 0, 0, 0), Qt::UTC),
    };
    return l;
}

// Time-zone offsets in seconds: the boundaries of every component of the textual form (+|-)hh:mm --
// zero, one minute, the last minute of hour zero (sign carried by the minutes alone), the hour, hour
// and a half, the extremes in use (-12:00, +14:00), a quarter-hour zone.
inline const QList<int> &tzOffsets()
{
    static const QList<int> l { 0, 60, -60, 1800, -1800, 3540, -3540, 3600, -3600, 5400, -5400, 19800, -34200, 50400, -43200, 45900, -2700 };
    return l;
}

template<typename I>
QList<I> intBounds()
{
    using L = std::numeric_limits<I>;
    QList<I> l { I(0), I(1), L::max(), I(L::max() - 1), I(L::max() / 2), I(L::max() / 2 + 1), I(42) };
    if constexpr (std::is_signed_v<I>) {
        l << I(-1) << L::min() << I(L::min() + 1);
    } else {
        l << I(2) << I(L::max() / 2 + 2) << I(100);
    }
    return l;
}

template<typename T>
struct Field {
    QString name;
    QString kind;
    std::function<void(T &, const PlanValue &, bool plain)> set;
    std::function<QString(const T &)> get;
};

// The value lattice of a list-valued field (ListShapes of spec/Codec.tla): empty list, singleton, two
// distinct members, two EQUAL members, equal but not adjacent (a,b,a), members differing only in
// case, members differing only in inner white space, an empty-string member.  `a` is the string the
// plan's character class chose for the field.  minSize = 1 for lists the protocol requires to be
// non-empty (the empty shape becomes the singleton).
constexpr int ListShapes = 8;
inline const char *listShapeName(int s)
{
    static const char *n[] = { "empty", "one", "two", "dup", "aba", "case", "space", "emptymember" };
    return n[((s % ListShapes) + ListShapes) % ListShapes];
}
inline int listShape(const PlanValue &v) { return ((v.shape >= 0 ? v.shape : v.idx) % ListShapes + ListShapes) % ListShapes; }
inline QStringList members(const PlanValue &v, bool plain, int minSize = 0)
{
    const QString a = plain ? v.plain : v.str;
    const QString b = plain ? v.plain + QStringLiteral("2") : QStringLiteral("second");
    switch (listShape(v)) {
    case 0:
        return minSize > 0 ? QStringList { a } : QStringList {};
    case 1:
        return { a };
    case 2:
        return { a, b };
    case 3:
        return { a, a };
    case 4:
        return { a, b, a };
    case 5:
        return { a + QStringLiteral("x"), a + QStringLiteral("X") };
    case 6:
        return { a + QStringLiteral(" y"), a + QStringLiteral("  y") };
    default:
        return { a, QString() };
    }
}
// order and multiplicity are part of the value; the count distinguishes [] from [""]
inline QString list2s(const QStringList &l) { return QString::number(l.size()) + QChar(':') + l.join(QChar(0x1f)); }
template<typename C>
QStringList toStrings(const C &c)
{
    QStringList l;
    for (const auto &x : c) {
        l << x;
    }
    return l;
}
template<typename C>
C fromStrings(const QStringList &l)
{
    C c;
    for (const auto &x : l) {
        c.push_back(x);
    }
    return c;
}
// set semantics (documented per field where it is used): order and multiplicity are not part of the value
inline QString set2s(QStringList l)
{
    l.removeDuplicates();
    l.sort();
    return list2s(l);
}

inline QString b2s(bool b) { return b ? QStringLiteral("true") : QStringLiteral("false"); }
inline QString dt2s(const QDateTime &d) { return d.isValid() ? d.toUTC().toString(Qt::ISODateWithMs) : QStringLiteral("(invalid)"); }
inline QString bytes2s(const QByteArray &b) { return QString::fromLatin1(b.toHex()); }
inline QString sl2s(const QStringList &l) { return l.join(QChar(0x1f)); }


// How an object of T is parsed from an element: parse() member (possibly returning bool) or fromDom().
template<typename T>
std::optional<T> parseObject(const QDomElement &el)
{
    if constexpr (requires { T::fromDom(el); }) {
        auto r = T::fromDom(el);
        if constexpr (qxvcodec::is_variant<decltype(r)>::value) {
            if (auto *v = std::get_if<T>(&r)) {
                return std::move(*v);
            }
            return std::nullopt;
        } else {
            return r;
        }
    } else {
        T o;
        if (!qxvcodec::parseInto(o, el)) {
            return std::nullopt;
        }
        return o;
    }
}

template<typename T>
ObjectType makeType(const QString &name, QVector<Field<T>> fs, std::function<void(T &)> init = {}, const QString &contextNs = {})
{
    ObjectType t;
    t.name = name;
    for (const auto &f : fs) {
        t.fields << f.name;
        t.kinds << f.kind;
    }
    // contextNs: the namespace a sub-element inherits from the element the library writes it into
    t.run = [fs, init, contextNs](const QVector<PlanValue> &vals, bool logGetters) -> QJsonObject {
        QJsonArray bad;
        auto build = [&](bool plain) {
            T o {};
            if (init) {
                init(o);
            }
            for (int i = 0; i < fs.size(); i++) {
                if (vals[i].cls >= 0) {
                    fs[i].set(o, vals[i], plain);
                }
            }
            return o;
        };
        T o1 = build(false);
        T def {};
        if (init) {
            init(def);
        }
        QStringList before;
        int nset = 0;
        for (const auto &f : fs) {
            before << f.get(o1);
            nset += before.last() != f.get(def);
        }
        auto x1 = qxvcodec::ser(o1);
        auto fail = [&](const QString &kind, const QString &field, const QString &want, const QString &got) {
            bad.append(QJsonObject { { "k", kind }, { "f", field }, { "want", want.left(200) }, { "got", got.left(200) } });
        };
        QJsonObject res { { "nset", nset }, { "x1", QString::fromUtf8(x1).left(600) } };
        if (logGetters) {
            // what the getters report before serialization (compared across heap fill patterns)
            QJsonArray g;
            for (int i = 0; i < fs.size(); i++) {
                g.append(fs[i].name + QChar('=') + before[i].left(60));
            }
            res["g"] = g;
        }
        auto f1 = parseFragment(x1, contextNs);
        if (!f1.wf) {
            fail("illformed", {}, {}, {});
            res["bad"] = bad;
            return res;
        }
        // parse what was written: the element itself, or (serializers of sibling groups) its parent;
        // an object that serializes to nothing parses back as a default-constructed one
        std::optional<T> o2;
        QStringList mismatches;
        auto compare = [&](const T &o) {
            QStringList m;
            for (int i = 0; i < fs.size(); i++) {
                if (fs[i].get(o) != before[i]) {
                    m << fs[i].name;
                }
            }
            return m;
        };
        if (f1.n == 0) {
            o2 = T {};
            mismatches = compare(*o2);
        } else {
            if (f1.n == 1) {
                o2 = parseObject<T>(f1.single());
                if (o2) {
                    mismatches = compare(*o2);
                }
            }
            if (!o2 || !mismatches.isEmpty()) {
                auto alt = parseObject<T>(f1.root);
                if (alt && (!o2 || compare(*alt).isEmpty())) {
                    auto am = compare(*alt);
                    if (!o2 || am.isEmpty()) {
                        o2 = alt;
                        mismatches = am;
                    }
                }
            }
        }
        if (!o2) {
            fail("reparse-rejected", {}, {}, {});
            res["bad"] = bad;
            return res;
        }
        for (int i = 0; i < fs.size(); i++) {
            if (mismatches.contains(fs[i].name)) {
                fail("field", fs[i].name, before[i], fs[i].get(*o2));
            }
        }
        auto x2 = qxvcodec::ser(*o2);
        if (x1 != x2) {
            auto f2 = parseFragment(x2, contextNs);
            if (!f2.wf || canon(f1.root, false, true) != canon(f2.root, false, true)) {
                fail("fixpoint", {}, QString::fromUtf8(x1), QString::fromUtf8(x2));
            }
        }
        // no markup injection: same element structure as with plain strings in the same fields
        T o0 = build(true);
        auto f0 = parseFragment(qxvcodec::ser(o0), contextNs);
        if (f0.wf && canon(f0.root, false, false) != canon(f1.root, false, false)) {
            fail("structure", {}, QString::fromUtf8(qxvcodec::ser(o0)), QString::fromUtf8(x1));
        }
        res["bad"] = bad;
        return res;
    };
    return t;
}

}  // namespace qxvfields

// ---- one line per field ---------------------------------------------------------------
#define F_STR(T, NAME, SETTER, GETTER)                                                                      \
    qxvfields::Field<T> { NAME, "str", [](T &o, const PlanValue &v, bool plain) { o.SETTER(plain ? v.plain : v.str); }, \
                          [](const T &o) { return QString(o.GETTER()); } }
#define F_BYTES(T, NAME, SETTER, GETTER)                                                                                                    \
    qxvfields::Field<T> { NAME, "bytes", [](T &o, const PlanValue &v, bool) { o.SETTER(v.str.toUtf8() + QByteArray(1, char(v.idx)) + QByteArray(v.idx % 3, '\0')); }, \
                          [](const T &o) { return qxvfields::bytes2s(o.GETTER()); } }
#define F_BOOL(T, NAME, SETTER, GETTER)                                                             \
    qxvfields::Field<T> { NAME, "bool", [](T &o, const PlanValue &v, bool) { o.SETTER(v.idx % 2 == 0); }, \
                          [](const T &o) { return qxvfields::b2s(o.GETTER()); } }
#define F_INT(T, NAME, ITYPE, SETTER, GETTER)                                                                                                   \
    qxvfields::Field<T> { NAME, "int:" #ITYPE, [](T &o, const PlanValue &v, bool) { auto b = qxvfields::intBounds<ITYPE>(); o.SETTER(b[v.idx % b.size()]); }, \
                          [](const T &o) { return QString::number(o.GETTER()); } }
#define F_ENUM(T, NAME, ETYPE, FIRST, COUNT, SETTER, GETTER)                                                             \
    qxvfields::Field<T> { NAME, "enum", [](T &o, const PlanValue &v, bool) { o.SETTER(ETYPE(int(FIRST) + v.idx % (COUNT))); }, \
                          [](const T &o) { return QString::number(int(o.GETTER())); } }
#define F_DT(T, NAME, SETTER, GETTER)                                                                                                       \
    qxvfields::Field<T> { NAME, "datetime", [](T &o, const PlanValue &v, bool) { o.SETTER(qxvfields::dateTimes()[v.idx % qxvfields::dateTimes().size()]); }, \
                          [](const T &o) { return qxvfields::dt2s(o.GETTER()); } }
// list of strings with QStringList setter/getter: the whole sequence (order, multiplicity) must come back
#define F_LIST(T, NAME, SETTER, GETTER)                                                                                  \
    qxvfields::Field<T> { NAME, "list:str", [](T &o, const PlanValue &v, bool plain) { o.SETTER(qxvfields::members(v, plain)); }, \
                          [](const T &o) { return qxvfields::list2s(qxvfields::toStrings(o.GETTER())); } }
// public data members (private nonza structs)
#define M_STR(T, MEMBER) \
    qxvfields::Field<T> { #MEMBER, "str", [](T &o, const PlanValue &v, bool plain) { o.MEMBER = plain ? v.plain : v.str; }, [](const T &o) { return QString(o.MEMBER); } }
#define M_BYTES(T, MEMBER)                                                                                                            \
    qxvfields::Field<T> { #MEMBER, "bytes", [](T &o, const PlanValue &v, bool) { o.MEMBER = v.str.toUtf8() + QByteArray(1, char(v.idx)); }, \
                          [](const T &o) { return qxvfields::bytes2s(o.MEMBER); } }
#define M_BOOL(T, MEMBER) \
    qxvfields::Field<T> { #MEMBER, "bool", [](T &o, const PlanValue &v, bool) { o.MEMBER = v.idx % 2 == 0; }, [](const T &o) { return qxvfields::b2s(o.MEMBER); } }
#define M_INT(T, MEMBER, ITYPE)                                                                                                            \
    qxvfields::Field<T> { #MEMBER, "int:" #ITYPE, [](T &o, const PlanValue &v, bool) { auto b = qxvfields::intBounds<ITYPE>(); o.MEMBER = b[v.idx % b.size()]; }, \
                          [](const T &o) { return QString::number(o.MEMBER); } }
#define M_DT(T, MEMBER)                                                                                                                          \
    qxvfields::Field<T> { #MEMBER, "datetime", [](T &o, const PlanValue &v, bool) { o.MEMBER = qxvfields::dateTimes()[v.idx % qxvfields::dateTimes().size()]; }, \
                          [](const T &o) { return qxvfields::dt2s(o.MEMBER); } }
// custom fields: SETL(statements) / GETL(statements) refer to the `T` of the enclosing `using T = ...`
#define SETL(...) [](T &o, const PlanValue &v, bool plain) { (void)plain; (void)v; __VA_ARGS__; }
#define GETL(...) [](const T &o) -> QString { __VA_ARGS__; }
#define F_CUSTOM(T, NAME, KIND, S, G) qxvfields::Field<T> { NAME, KIND, S, G }

const QVector<ObjectType> &objectTypes();
QJsonObject objectCase(Ctx &ctx, const QString &cls, int map, const QJsonArray &vals, int variant, bool logGetters = false, int shape = -1);
QJsonObject scalarChecks();
