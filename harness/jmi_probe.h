// Read-only view of the private state of QXmppJingleMessageInitiationManager / QXmppJingleMessageInitiation
// for `qxv jmi`.  Both classes declare `friend class tst_QXmppJingleMessageInitiationManager` (the
// repository's own test seam); the harness defines a class of that name that only READS: the manager's
// list of JMIs and, per JMI, its id, the call partner's bare JID and the isProceeded flag.
#pragma once

#include "QXmppJingleMessageInitiationManager.h"

#include <memory>

class tst_QXmppJingleMessageInitiationManager
{
public:
    using Jmi = QXmppJingleMessageInitiation;
    static QVector<std::shared_ptr<Jmi>> list(const QXmppJingleMessageInitiationManager &m) { return m.jmis(); }
    static QString id(const Jmi &j) { return j.id(); }
    static QString partner(const Jmi &j) { return j.callPartnerJid(); }
    static bool proceeded(const Jmi &j) { return j.isProceeded(); }
};
using JmiProbe = tst_QXmppJingleMessageInitiationManager;
