// qxv saslexchange — plays server scripts of spec/SaslExchange.tla (property C06) against the real
// SaslManager / Sasl2Manager + QXmppSaslClient* mechanism objects with a recording SendDataInterface.
//
// input (one execution per line, concretised by lib/props/C06.py with lib/refcrypto.py):
//   {"id":"b12","fam":"SCRAM","mech":"SCRAM-SHA-256","v":1|2,"fast":false,"user":"..","pw":"..","domain":"..",
//    "cnonce":"..","token":"..",
//    "steps":[{"a":"Challenge|Success|Failure|Continue","t":"SF","x":"ext","y":"ok","z":"ok","data":"<base64>"|null},..]}
//   (for Failure, "data" is the name of the error condition element)
// The client nonce is forced through QXmppSaslDigestMd5::setNonce (the library's own test seam), so the
// whole exchange is a function of the input.  The driver knows nothing about the mechanisms: it wraps the
// given data into the SASL / SASL 2 elements and records what the client sent and reported.
//
// output: {"e":"Reset","case":id,"mech":fam,"cm":mech,"v":v}
//         {"e":"Auth","o":OBS}   then per step   {"e":a,"t":..,"x":..,"y":..,"z":..,"o":OBS}
//   OBS = {"res":"Pending|Success|Error","err":"<AuthenticationError type>|","ret":"Accepted|Rejected|Finished|",
//          "kinds":["initial"|"data"|"empty"|"abort"|other element name],"out":[{"el":..,"mech":..,"p":<base64 text as sent>}],"n":<elements sent so far>}
#include "qxv.h"

#include "QXmppConfiguration.h"
#include "QXmppSasl2UserAgent.h"
#include "QXmppSaslManager_p.h"
#include "QXmppSasl_p.h"

#include "XmppSocket.h"

#include <QDomDocument>
#include <QUuid>

using namespace QXmpp::Private;

namespace {

const QString nsSasl = QStringLiteral("urn:ietf:params:xml:ns:xmpp-sasl");
const QString nsSasl2 = QStringLiteral("urn:xmpp:sasl:2");

struct RecSocket : SendDataInterface {
    QList<QByteArray> sent;
    bool sendData(const QByteArray &d) override
    {
        sent << d;
        return true;
    }
};

const char *errName(QXmpp::AuthenticationError::Type t)
{
    using E = QXmpp::AuthenticationError;
    switch (t) {
    case E::NotAuthorized: return "NotAuthorized";
    case E::AccountDisabled: return "AccountDisabled";
    case E::CredentialsExpired: return "CredentialsExpired";
    case E::EncryptionRequired: return "EncryptionRequired";
    case E::MechanismMismatch: return "MechanismMismatch";
    case E::ProcessingError: return "ProcessingError";
    case E::RequiredTasks: return "RequiredTasks";
    }
    return "?";
}

const char *retName(HandleElementResult r)
{
    switch (r) {
    case Accepted: return "Accepted";
    case Rejected: return "Rejected";
    case Finished: return "Finished";
    }
    return "?";
}

const QStringList kHashes { "SHA-256", "SHA-384", "SHA-512", "SHA3-224", "SHA3-256", "SHA3-384", "SHA3-512" };

std::optional<SaslHtMechanism> tokenMechanism(const QString &name)
{
    for (int h = 0; h < kHashes.size(); h++) {
        if (name == "HT-" + kHashes[h] + "-NONE") {
            return SaslHtMechanism { IanaHashAlgorithm(h), SaslHtMechanism::None };
        }
    }
    return {};
}

struct Exec {
    RecSocket sock;
    QXmppLoggable loggable;
    std::unique_ptr<SaslManager> m1;
    std::unique_ptr<Sasl2Manager> m2;
    QString res = "Pending";
    QString err;
    int reported = 0;  // how often the caller has been told a result
    int seen = 0;      // elements of sock.sent already logged

    QJsonObject observe(const QString &ret)
    {
        QJsonArray out, kinds;
        for (; seen < sock.sent.size(); seen++) {
            QDomDocument doc;
            QJsonObject o;
            if (!doc.setContent(sock.sent[seen], true)) {
                o = { { "el", "(unparsable)" }, { "p", QString::fromLatin1(sock.sent[seen].toBase64()) } };
                kinds.append("(unparsable)");
            } else {
                auto el = doc.documentElement();
                QString name = el.tagName();
                QString text;
                if (name == "authenticate") {
                    text = el.firstChildElement("initial-response").text();
                } else if (name == "abort") {
                    text = QString();
                } else {
                    text = el.text();
                }
                o = { { "el", name }, { "ns", el.namespaceURI() }, { "p", text } };
                if (el.hasAttribute("mechanism")) {
                    o["mech"] = el.attribute("mechanism");
                }
                if (name == "auth" || name == "authenticate") {
                    kinds.append("initial");
                } else if (name == "response") {
                    kinds.append(text.isEmpty() || text == "=" ? "empty" : "data");
                } else {
                    kinds.append(name);
                }
            }
            out.append(o);
        }
        return QJsonObject { { "res", res }, { "err", err }, { "ret", ret }, { "kinds", kinds }, { "out", out },
                             { "n", sock.sent.size() }, { "rep", reported } };
    }
};

QDomElement makeElement(QDomDocument &doc, int v, const QJsonObject &s, const QString &jid)
{
    const QString ns = v == 1 ? nsSasl : nsSasl2;
    const QString a = s["a"].toString();
    const bool hasData = !s["data"].isNull() && !s["data"].isUndefined();
    const QString data = s["data"].toString();
    auto textChild = [&](QDomElement &parent, const QString &cns, const QString &name, const QString &text) {
        auto c = doc.createElementNS(cns, name);
        c.appendChild(doc.createTextNode(text));
        parent.appendChild(c);
    };
    QDomElement el;
    if (a == "Challenge") {
        el = doc.createElementNS(ns, "challenge");
        if (hasData && !data.isEmpty()) {
            el.appendChild(doc.createTextNode(data));
        }
    } else if (a == "Success") {
        el = doc.createElementNS(ns, "success");
        if (v == 1) {
            if (hasData) {
                // RFC 6120 6.3.10: zero-length additional data is "="
                el.appendChild(doc.createTextNode(data.isEmpty() ? QStringLiteral("=") : data));
            }
        } else {
            if (hasData) {
                textChild(el, ns, "additional-data", data);
            }
            textChild(el, ns, "authorization-identifier", jid);
        }
    } else if (a == "Failure") {
        // condition: "data" names it (the server answers an <abort/> with <aborted/>), default not-authorized
        el = doc.createElementNS(ns, "failure");
        el.appendChild(doc.createElementNS(nsSasl, hasData && !data.isEmpty() ? data : QStringLiteral("not-authorized")));
    } else if (a == "Continue") {
        el = doc.createElementNS(nsSasl2, "continue");
        textChild(el, nsSasl2, "additional-data", "SSdtIGJvcmVkIG5vdy4=");
        auto tasks = doc.createElementNS(nsSasl2, "tasks");
        textChild(tasks, nsSasl2, "task", "TOTP-EXAMPLE");
        el.appendChild(tasks);
        textChild(el, nsSasl2, "text", "This account requires 2FA");
    }
    doc.appendChild(el);
    return el;
}

void runExecution(Ctx &ctx, const QJsonObject &b)
{
    const QString mech = b["mech"].toString();
    const int v = b["v"].toInt();
    ctx.reset(b["id"].toString(), { { "mech", b["fam"].toString() }, { "cm", mech }, { "v", v } });

    QXmppConfiguration config;
    config.setUser(b["user"].toString());
    config.setDomain(b["domain"].toString());
    config.setPassword(b["pw"].toString());
    config.setDisabledSaslMechanisms({});
    if (auto tm = tokenMechanism(mech)) {
        config.credentialData().htToken = HtToken { *tm, b["token"].toString(), QDateTime() };
    }
    config.setSasl2UserAgent(QXmppSasl2UserAgent(QUuid::fromString(QStringLiteral("d4565fa7-4d72-4749-b3d3-740edbf87770")), "qxv", "harness"));
    QXmppSaslDigestMd5::setNonce(b["cnonce"].toString().toUtf8());

    Exec x;
    if (v == 1) {
        x.m1 = std::make_unique<SaslManager>(&x.sock);
        auto task = x.m1->authenticate(config, { mech }, &x.loggable);
        task.then(&x.loggable, [&x](SaslManager::AuthResult &&r) {
            x.reported++;
            if (std::holds_alternative<SaslManager::AuthError>(r)) {
                x.res = "Error";
                x.err = errName(std::get<SaslManager::AuthError>(r).second.type);
            } else {
                x.res = "Success";
            }
        });
    } else {
        x.m2 = std::make_unique<Sasl2Manager>(&x.sock);
        Sasl2::StreamFeature feature;
        if (b["fast"].toBool()) {
            feature.mechanisms = QList<QString> { "X-UNSUPPORTED" };
            FastFeature ff;
            ff.mechanisms.push_back(mech);
            feature.fast = ff;
        } else {
            feature.mechanisms = QList<QString> { mech };
        }
        auto task = x.m2->authenticate(Sasl2::Authenticate(), config, feature, &x.loggable);
        task.then(&x.loggable, [&x](Sasl2Manager::AuthResult &&r) {
            x.reported++;
            if (std::holds_alternative<Sasl2Manager::AuthError>(r)) {
                x.res = "Error";
                x.err = errName(std::get<Sasl2Manager::AuthError>(r).second.type);
            } else {
                x.res = "Success";
            }
        });
    }
    ctx.emit_(QJsonObject { { "e", "Auth" }, { "o", x.observe("") } });

    const QString jid = b["user"].toString() + "@" + b["domain"].toString();
    for (const auto &sv : b["steps"].toArray()) {
        auto s = sv.toObject();
        QDomDocument doc;
        auto el = makeElement(doc, v, s, jid);
        if (el.isNull()) {
            fprintf(stderr, "saslexchange: unknown step %s\n", qPrintable(s["a"].toString()));
            exit(2);
        }
        auto ret = v == 1 ? x.m1->handleElement(el) : x.m2->handleElement(el);
        ctx.emit_(QJsonObject { { "e", s["a"].toString() }, { "t", s["t"].toString() }, { "x", s["x"].toString() },
                                { "y", s["y"].toString() }, { "z", s["z"].toString() }, { "o", x.observe(retName(ret)) } });
    }
    QXmppSaslDigestMd5::setNonce(QByteArray());
}

}  // namespace

QXV_DRIVER(saslexchange)
{
    for (const auto &bv : ctx.behaviours()) {
        runExecution(ctx, bv.toObject());
    }
    return 0;
}
