// Scripted XMPP server for session-level steps, on top of LoopPeer (loopback.h).
// The real QXmppClient connects over 127.0.0.1, authenticates with SASL PLAIN, binds and
// (optionally) negotiates XEP-0198 exactly as it does against a server; the script decides
// what the server offers and answers (stream management offered or not, resumption granted or
// refused).  Every wait is for a condition (bytes arrived, element consumed, signal seen); the
// timeout is only a hang detector and is reported as a failed step, never as an observation.
#pragma once

#include "fixture.h"
#include "loopback.h"

#include <QRegularExpression>

struct SrvScript {
    enum Kind { Plain,      // no <sm/> offered
                Sm,         // <enabled/> without resume
                SmR,        // <enabled resume='true'/>
                Resumed };  // <resumed/> (the client must ask for it)

    LoopPeer &peer;
    TestClient &c;
    int connectedSignals = 0;
    int disconnectedSignals = 0;
    int streams = 0;
    QString smId;           // id of the resumable server-side session
    int smCount = 0;        // stanzas the server has received on that session
    bool smActive = false;
    bool sasl2 = false;     // authenticate with XEP-0388 (SASL 2) + bind 2 with inline stream management
    QString why;            // reason of the last failed step
    int timeoutMs = 3000;

    SrvScript(LoopPeer &p, TestClient &cl) : peer(p), c(cl)
    {
        QObject::connect(&c, &QXmppClient::connected, &c, [this] { ++connectedSignals; });
        QObject::connect(&c, &QXmppClient::disconnected, &c, [this] { ++disconnectedSignals; });
        auto &cfg = c.configuration();
        cfg.setHost(QStringLiteral("127.0.0.1"));
        cfg.setPort(peer.port());
        cfg.setAutoReconnectionEnabled(false);
        cfg.setStreamSecurityMode(QXmppConfiguration::TLSDisabled);
        cfg.setDisabledSaslMechanisms({});
        cfg.setUseSasl2Authentication(false);
        cfg.setUseNonSASLAuthentication(false);
    }

    void setSasl2(bool on)
    {
        sasl2 = on;
        c.configuration().setUseSasl2Authentication(on);
    }

    static QString tr(Kind k)
    {
        switch (k) {
        case Plain: return QStringLiteral("plain");
        case Sm: return QStringLiteral("sm");
        case SmR: return QStringLiteral("smr");
        case Resumed: return QStringLiteral("resumed");
        }
        return {};
    }
    static bool kindFrom(const QString &s, Kind &k)
    {
        if (s == "plain") { k = Plain; return true; }
        if (s == "sm") { k = Sm; return true; }
        if (s == "smr") { k = SmR; return true; }
        if (s == "resumed") { k = Resumed; return true; }
        return false;
    }

    bool fail(const QString &w)
    {
        why = w;
        return false;
    }

    // consume what the server has received so far; count stanzas for <resumed h=…/>
    QByteArray absorb()
    {
        auto d = peer.takeReceived();
        if (smActive) {
            smCount += d.count("<iq ") + d.count("<presence") + d.count("<message");
        }
        return d;
    }
    bool waitFor(const QByteArray &needle)
    {
        return qxvSpin([&] { return peer.received.contains(needle); }, timeoutMs);
    }
    // all bytes the client has written on the current connection have reached the server
    bool flushClient(qint64 sentBefore, qint64 recvBefore)
    {
        if (!peer.isOpen()) {
            return true;
        }
        return qxvSpin([&] { return !peer.isOpen() || peer.totalReceived - recvBefore >= c.sentBytes - sentBefore; }, timeoutMs);
    }

    QString header()
    {
        return QStringLiteral("<?xml version='1.0'?><stream:stream xmlns='jabber:client' "
                              "xmlns:stream='http://etherx.jabber.org/streams' id='st%1' from='example.org' version='1.0'>")
            .arg(++streams);
    }

    bool connect(Kind k)
    {
        const int n0 = peer.connections;
        const int sig0 = connectedSignals;
        const qint64 sent0 = c.sentBytes, recv0 = peer.totalReceived;
        c.connectToServer(c.configuration());
        if (!peer.waitConnection(n0 + 1, timeoutMs)) {
            return fail("no connection");
        }
        // no Nagle / delayed-ACK stalls between the two ends (timing only)
        if (auto *cs = c.findChild<QSslSocket *>()) {
            cs->setSocketOption(QAbstractSocket::LowDelayOption, 1);
        }
        if (peer.sock) {
            peer.sock->setSocketOption(QAbstractSocket::LowDelayOption, 1);
        }
        smActive = false;   // nothing counts until <enabled/> / <resumed/>
        if (!waitFor("<stream:stream")) {
            return fail("no stream header");
        }
        absorb();
        if (sasl2) {
            return connectSasl2(k, sig0, sent0, recv0);
        }
        peer.write((header() + "<stream:features><mechanisms xmlns='urn:ietf:params:xml:ns:xmpp-sasl'>"
                               "<mechanism>PLAIN</mechanism></mechanisms></stream:features>")
                       .toUtf8());
        if (!waitFor("<auth")) {
            return fail("no <auth/>");
        }
        absorb();
        peer.write("<success xmlns='urn:ietf:params:xml:ns:xmpp-sasl'/>");
        if (!waitFor("<stream:stream")) {
            return fail("no stream restart");
        }
        absorb();
        QString feats = "<stream:features><bind xmlns='urn:ietf:params:xml:ns:xmpp-bind'/>";
        if (k != Plain) {
            feats += "<sm xmlns='urn:xmpp:sm:3'/>";
        }
        feats += "</stream:features>";
        peer.write((header() + feats).toUtf8());
        if (!qxvSpin([&] { return peer.received.contains("<resume") || peer.received.contains("<bind"); }, timeoutMs)) {
            return fail("neither <resume/> nor bind");
        }
        if (peer.received.contains("<resume")) {
            absorb();
            if (k == Resumed) {
                peer.write(QStringLiteral("<resumed xmlns='urn:xmpp:sm:3' h='%1' previd='%2'/>").arg(smCount).arg(smId).toUtf8());
                smActive = true;
                if (!qxvSpin([&] { return connectedSignals > sig0; }, timeoutMs)) {
                    return fail("no connected signal after <resumed/>");
                }
                qxvDrain(2);
                flushClient(sent0, recv0);
                return true;
            }
            peer.write("<failed xmlns='urn:xmpp:sm:3'><item-not-found xmlns='urn:ietf:params:xml:ns:xmpp-stanzas'/></failed>");
            // a diverging client may declare the session open without binding: that is an observation, not a hang
            if (!qxvSpin([&] { return peer.received.contains("<bind") || connectedSignals > sig0; }, timeoutMs)) {
                return fail("no bind after <failed/>");
            }
            if (!peer.received.contains("<bind")) {
                qxvDrain(2);
                flushClient(sent0, recv0);
                absorb();
                return true;
            }
        } else if (k == Resumed) {
            return fail("client did not ask for resumption");
        }
        static const QRegularExpression idRe(QStringLiteral("<iq[^>]*\\sid=\"([^\"]*)\""));
        auto m = idRe.match(QString::fromUtf8(absorb()));
        if (!m.hasMatch()) {
            return fail("bind iq without id");
        }
        peer.write(QStringLiteral("<iq type='result' id='%1'><bind xmlns='urn:ietf:params:xml:ns:xmpp-bind'><jid>%2</jid></bind></iq>")
                       .arg(m.captured(1), c.configuration().jid())
                       .toUtf8());
        if (k != Plain) {
            if (!waitFor("<enable")) {
                return fail("no <enable/>");
            }
            absorb();
            smId = QStringLiteral("sm%1").arg(streams);
            smCount = 0;
            smActive = true;
            peer.write((k == SmR ? QStringLiteral("<enabled xmlns='urn:xmpp:sm:3' id='%1' resume='true'/>")
                                 : QStringLiteral("<enabled xmlns='urn:xmpp:sm:3' id='%1'/>"))
                           .arg(smId)
                           .toUtf8());
        }
        if (!qxvSpin([&] { return connectedSignals > sig0; }, timeoutMs)) {
            return fail("no connected signal");
        }
        qxvDrain(2);
        flushClient(sent0, recv0);
        return true;
    }

    // XEP-0388 authentication with inline bind 2 / stream management: resumption is requested and
    // answered inside <authenticate/> / <success/>, stream management is enabled inside <bound/>.
    bool connectSasl2(Kind k, int sig0, qint64 sent0, qint64 recv0)
    {
        const QString sm = QStringLiteral("urn:xmpp:sm:3");
        QString feats = "<stream:features><authentication xmlns='urn:xmpp:sasl:2'><mechanism>PLAIN</mechanism><inline>"
                        "<bind xmlns='urn:xmpp:bind:0'>";
        if (k != Plain) {
            feats += "<inline><feature var='urn:xmpp:sm:3'/></inline>";
        }
        feats += "</bind>";
        if (k != Plain) {
            feats += "<sm xmlns='urn:xmpp:sm:3'/>";
        }
        feats += "</inline></authentication></stream:features>";
        peer.write((header() + feats).toUtf8());
        if (!waitFor("</authenticate>")) {
            return fail("no <authenticate/>");
        }
        const auto req = absorb();
        const bool askedResume = req.contains("<resume");
        QString ok = QStringLiteral("<success xmlns='urn:xmpp:sasl:2'><authorization-identifier>%1</authorization-identifier>").arg(c.configuration().jid());
        if (k == Resumed) {
            if (!askedResume) {
                return fail("client did not ask for resumption");
            }
            ok += QStringLiteral("<resumed xmlns='%1' h='%2' previd='%3'/></success>").arg(sm).arg(smCount).arg(smId);
            peer.write(ok.toUtf8());
            smActive = true;
        } else {
            if (askedResume) {
                ok += QStringLiteral("<failed xmlns='%1'><item-not-found xmlns='urn:ietf:params:xml:ns:xmpp-stanzas'/></failed>").arg(sm);
            }
            ok += "<bound xmlns='urn:xmpp:bind:0'>";
            if (k != Plain && req.contains("<enable")) {
                smId = QStringLiteral("sm%1").arg(streams);
                smCount = 0;
                smActive = true;
                ok += k == SmR ? QStringLiteral("<enabled xmlns='%1' id='%2' resume='true'/>").arg(sm, smId)
                               : QStringLiteral("<enabled xmlns='%1' id='%2'/>").arg(sm, smId);
            } else if (k != Plain) {
                return fail("client did not ask to enable stream management");
            }
            ok += "</bound></success>";
            // no stream restart with SASL 2: the server goes on with the features of the bound stream
            ok += k != Plain ? "<stream:features><sm xmlns='urn:xmpp:sm:3'/></stream:features>" : "<stream:features/>";
            peer.write(ok.toUtf8());
        }
        if (!qxvSpin([&] { return connectedSignals > sig0; }, timeoutMs)) {
            return fail("no connected signal (SASL 2)");
        }
        qxvDrain(2);
        flushClient(sent0, recv0);
        return true;
    }

    // Something that happens while no session is up and ends without one (spec/IqTracker.tla, Attempt):
    //   precut    the connection drops right after the client's stream header (resumption still possible)
    //   authfail  the server answers the authentication request with <failure/>
    //   bindfail  authentication succeeds, resource binding is answered with an error (with SASL 2 binding is
    //             part of authentication: the same <failure/> as authfail)
    //   userabort the application calls disconnectFromServer() while the authentication request is unanswered
    //   abandon   the application calls disconnectFromServer() while there is no connection at all
    // Returns when the client has reported `disconnected` (abandon: when posted events have run).
    bool attempt(const QString &r)
    {
        if (r == "abandon") {
            c.disconnectFromServer();
            qxvDrain(3);
            absorb();
            return true;
        }
        const int n0 = peer.connections;
        const int dsig0 = disconnectedSignals;
        c.connectToServer(c.configuration());
        if (!peer.waitConnection(n0 + 1, timeoutMs)) {
            return fail("no connection");
        }
        if (auto *cs = c.findChild<QSslSocket *>()) {
            cs->setSocketOption(QAbstractSocket::LowDelayOption, 1);
        }
        if (peer.sock) {
            peer.sock->setSocketOption(QAbstractSocket::LowDelayOption, 1);
        }
        smActive = false;
        if (!waitFor("<stream:stream")) {
            return fail("no stream header");
        }
        absorb();
        auto ended = [&]() {
            if (!qxvSpin([&] { return disconnectedSignals > dsig0; }, timeoutMs)) {
                return fail("no disconnected signal after the failed attempt (" + r + ")");
            }
            qxvDrain(2);
            absorb();
            return true;
        };
        if (r == "precut") {
            peer.cut();
            return ended();
        }
        if (sasl2) {
            peer.write((header() + "<stream:features><authentication xmlns='urn:xmpp:sasl:2'><mechanism>PLAIN</mechanism><inline>"
                                   "<bind xmlns='urn:xmpp:bind:0'><inline><feature var='urn:xmpp:sm:3'/></inline></bind>"
                                   "<sm xmlns='urn:xmpp:sm:3'/></inline></authentication></stream:features>")
                           .toUtf8());
            if (!waitFor("</authenticate>")) {
                return fail("no <authenticate/>");
            }
        } else {
            peer.write((header() + "<stream:features><mechanisms xmlns='urn:ietf:params:xml:ns:xmpp-sasl'>"
                                   "<mechanism>PLAIN</mechanism></mechanisms></stream:features>")
                           .toUtf8());
            if (!waitFor("<auth")) {
                return fail("no <auth/>");
            }
        }
        absorb();
        if (r == "userabort") {
            c.disconnectFromServer();
            return ended();
        }
        if (r == "authfail" || sasl2) {
            peer.write(sasl2 ? "<failure xmlns='urn:xmpp:sasl:2'><not-authorized xmlns='urn:ietf:params:xml:ns:xmpp-sasl'/></failure>"
                             : "<failure xmlns='urn:ietf:params:xml:ns:xmpp-sasl'><not-authorized/></failure>");
            return ended();
        }
        // bindfail (classic): no <sm/> offered, so the client goes straight to resource binding
        peer.write("<success xmlns='urn:ietf:params:xml:ns:xmpp-sasl'/>");
        if (!waitFor("<stream:stream")) {
            return fail("no stream restart");
        }
        absorb();
        peer.write((header() + "<stream:features><bind xmlns='urn:ietf:params:xml:ns:xmpp-bind'/></stream:features>").toUtf8());
        if (!waitFor("<bind")) {
            return fail("no bind request");
        }
        static const QRegularExpression idRe(QStringLiteral("<iq[^>]*\\sid=\"([^\"]*)\""));
        auto m = idRe.match(QString::fromUtf8(absorb()));
        peer.write(QStringLiteral("<iq type='error' id='%1'><bind xmlns='urn:ietf:params:xml:ns:xmpp-bind'/><error type='cancel'>"
                                  "<conflict xmlns='urn:ietf:params:xml:ns:xmpp-stanzas'/></error></iq>")
                       .arg(m.captured(1))
                       .toUtf8());
        return ended();
    }

    // the connection drops under the client
    bool cut()
    {
        const int sig0 = disconnectedSignals;
        absorb();
        peer.cut();
        if (!qxvSpin([&] { return disconnectedSignals > sig0; }, timeoutMs)) {
            return fail("no disconnected signal after cut");
        }
        qxvDrain(2);
        return true;
    }
    // QXmppClient::disconnectFromServer()
    bool userDisconnect()
    {
        const int sig0 = disconnectedSignals;
        c.disconnectFromServer();
        if (!qxvSpin([&] { return disconnectedSignals > sig0; }, timeoutMs)) {
            return fail("no disconnected signal after disconnectFromServer");
        }
        qxvDrain(2);
        absorb();
        return true;
    }
    // the server writes one or more complete elements; returns when the client has consumed them
    // and everything it wrote in reaction has reached the server
    bool deliver(const QString &xml)
    {
        if (!peer.isOpen()) {
            return fail("connection not open");
        }
        const int rc0 = c.receivedCount;
        const qint64 sent0 = c.sentBytes, recv0 = peer.totalReceived;
        peer.write(xml.toUtf8());
        if (!qxvSpin([&] { return c.receivedCount > rc0; }, timeoutMs)) {
            return fail("element not consumed");
        }
        qxvDrain(2);
        if (!flushClient(sent0, recv0)) {
            return fail("client output did not arrive");
        }
        absorb();
        return true;
    }
};
